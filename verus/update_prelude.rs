

pub assume_specification<T, E> [core::result::Result::<T, E>::unwrap_or] (r: core::result::Result<T, E>, d: T) -> (o: T)
    ensures o == (match r { Ok(v) => v, Err(_) => d });


/// number of effective buckets (48, 128 or 256): arbitrary here, so ONE proof covers
/// every variant and both bucket memory layouts
pub uninterp spec fn nb() -> int;

// ---------- abstract callees (contracts proved by the Kani back end)
pub uninterp spec fn bmap(salt: u8, a: u8, b: u8, c: u8) -> u8;
pub uninterp spec fn ck_upd(ck: Seq<u8>, curr: u8, prev: u8) -> Seq<u8>;

/// The bucket store is abstract here: only its *effective view* (the first nb()
/// counters, all that data()/finalize ever read) is visible.  Both memory layouts
/// (256 physical counters; nb() counters with out-of-range indices ignored) satisfy
/// this one contract -- Kani obligations buckets.increment.{48,128,256} in rows
/// plain and lowmem-a prove it on the real code.
#[verifier::external_body]
pub struct Buckets { _private: [u32; 0] }
impl Buckets {
    pub uninterp spec fn eff(&self) -> Seq<u32>;
    #[verifier::external_body]
    pub fn increment(&mut self, index: u8)
        requires old(self).eff().len() == nb()
        ensures final(self).eff() == inc(old(self).eff(), index)
    { unimplemented!() }
}
/// The checksum is abstract as well (1 or 3 bytes): `ck_upd` is pinned by the Kani
/// obligations checksum.update1.* / checksum.update3.* on the real code.
#[verifier::external_body]
pub struct Checksum { _private: [u8; 0] }
impl Checksum {
    pub uninterp spec fn ckv(&self) -> Seq<u8>;
    #[verifier::external_body]
    pub fn update(&mut self, curr: u8, prev: u8)
        ensures final(self).ckv() == ck_upd(old(self).ckv(), curr, prev)
    { unimplemented!() }
}

#[verifier::external_body]
pub fn unlikely(b: bool) -> (r: bool) ensures r == b { b }
#[verifier::external_body]
pub fn likely(b: bool) -> (r: bool) ensures r == b { b }

// ---------- spec
pub struct St {
    pub buckets: Seq<u32>,
    pub len: u32,
    pub ck: Seq<u8>,
    pub tail: Seq<u8>,
    pub tail_len: u32,
}

/// effective bucket i gains 1 (mod 2^32); an index outside the effective range changes nothing
pub open spec fn inc(b: Seq<u32>, i: u8) -> Seq<u32> {
    if (i as int) < b.len() { b.update(i as int, b[i as int].wrapping_add(1u32)) } else { b }
}

pub const MAX_LEN_SPEC: u32 = 0xffff_fffc;

pub open spec fn hits(idx: Seq<u8>, k: int) -> nat decreases idx.len() {
    if idx.len() == 0 { 0 } else { hits(idx.drop_last(), k) + if idx.last() as int == k { 1nat } else { 0nat } }
}
/// x plus c, wrapping at 2^32, as c single wrapping increments (no modular arithmetic for the solver)
pub open spec fn addw(x: u32, c: nat) -> u32
    decreases c
{
    if c == 0 { x } else { addw(x, (c - 1) as nat).wrapping_add(1u32) }
}
pub proof fn lemma_addw_is_mod(x: u32, c: nat)
    ensures addw(x, c) as int == (x as int + c as int) % 0x1_0000_0000
    decreases c
{
    if c == 0 {
        vstd::arithmetic::div_mod::lemma_small_mod(x as nat, 0x1_0000_0000);
    } else {
        lemma_addw_is_mod(x, (c - 1) as nat);
        let r = (x as int + c as int - 1) % 0x1_0000_0000;
        vstd::arithmetic::div_mod::lemma_add_mod_noop(x as int + c as int - 1, 1, 0x1_0000_0000);
        vstd::arithmetic::div_mod::lemma_small_mod(1, 0x1_0000_0000);
        if r + 1 == 0x1_0000_0000 { } else { vstd::arithmetic::div_mod::lemma_small_mod((r + 1) as nat, 0x1_0000_0000); }
    }
}
/// pointwise: bucket k advances by the number of triplets mapped to k (mod 2^32) -- order-free
pub open spec fn bump(b: Seq<u32>, idx: Seq<u8>) -> Seq<u32> {
    Seq::new(b.len(), |k: int| addw(b[k], hits(idx, k)))
}
pub proof fn lemma_hits6(i0: u8, i1: u8, i2: u8, i3: u8, i4: u8, i5: u8, k: int)
    ensures hits(seq![i0, i1, i2, i3, i4, i5], k) ==
        (if i0 as int == k { 1nat } else { 0nat }) + (if i1 as int == k { 1nat } else { 0nat }) + (if i2 as int == k { 1nat } else { 0nat })
      + (if i3 as int == k { 1nat } else { 0nat }) + (if i4 as int == k { 1nat } else { 0nat }) + (if i5 as int == k { 1nat } else { 0nat })
{
    reveal_with_fuel(hits, 8);
    assert(seq![i0, i1, i2, i3, i4, i5].drop_last() =~= seq![i0, i1, i2, i3, i4]);
    assert(seq![i0, i1, i2, i3, i4].drop_last() =~= seq![i0, i1, i2, i3]);
    assert(seq![i0, i1, i2, i3].drop_last() =~= seq![i0, i1, i2]);
    assert(seq![i0, i1, i2].drop_last() =~= seq![i0, i1]);
    assert(seq![i0, i1].drop_last() =~= seq![i0]);
    assert(seq![i0].drop_last() =~= Seq::<u8>::empty());
}
/// one bucket after six increments at indices a0..a5 (in whatever order they ran)
pub proof fn lemma_inc6_at(b: Seq<u32>, a0: u8, a1: u8, a2: u8, a3: u8, a4: u8, a5: u8, k: int)
    requires 0 <= k < b.len()
    ensures
        inc(inc(inc(inc(inc(inc(b, a0), a1), a2), a3), a4), a5).len() == b.len(),
        inc(inc(inc(inc(inc(inc(b, a0), a1), a2), a3), a4), a5)[k] == addw(b[k],
            (if a0 as int == k { 1nat } else { 0nat }) + (if a1 as int == k { 1nat } else { 0nat }) + (if a2 as int == k { 1nat } else { 0nat })
          + (if a3 as int == k { 1nat } else { 0nat }) + (if a4 as int == k { 1nat } else { 0nat }) + (if a5 as int == k { 1nat } else { 0nat })),
{
    reveal_with_fuel(addw, 8);
}

pub open spec fn step(s: St, b4: u8) -> St {
    if s.tail_len < 4 {
        St { tail: s.tail.update(s.tail_len as int, b4), tail_len: (s.tail_len + 1) as u32, ..s }
    } else if s.len >= MAX_LEN_SPEC {
        s
    } else {
        let b0 = s.tail[0]; let b1 = s.tail[1]; let b2 = s.tail[2]; let b3 = s.tail[3];
        let bk = bump(s.buckets, seq![bmap(2, b4, b3, b2), bmap(3, b4, b3, b1), bmap(5, b4, b2, b1),
            bmap(7, b4, b2, b0), bmap(11, b4, b3, b0), bmap(13, b4, b1, b0)]);
        St {
            buckets: bk,
            len: (s.len + 1) as u32,
            ck: ck_upd(s.ck, b4, b3),
            tail: seq![b1, b2, b3, b4],
            tail_len: s.tail_len,
        }
    }
}

#[verifier::opaque]
pub open spec fn feed(s: St, d: Seq<u8>) -> St
    decreases d.len()
{
    if d.len() == 0 { s } else { step(feed(s, d.drop_last()), d.last()) }
}


pub proof fn lemma_feed_concat(s: St, a: Seq<u8>, b: Seq<u8>)
    ensures feed(s, a + b) == feed(feed(s, a), b)
    decreases b.len()
{
    reveal_with_fuel(feed, 2);
    if b.len() == 0 {
        assert(a + b =~= a);
    } else {
        lemma_feed_concat(s, a, b.drop_last());
        assert((a + b).drop_last() =~= a + b.drop_last());
        assert((a + b).last() == b.last());
    }
}

pub open spec fn fill(t: Seq<u8>, at: int, d: Seq<u8>) -> Seq<u8> {
    Seq::new(t.len(), |i: int| if at <= i < at + d.len() { d[i - at] } else { t[i] })
}

pub proof fn lemma_feed_fill(s: St, d: Seq<u8>)
    requires s.tail.len() == 4, s.tail_len + d.len() <= 4
    ensures feed(s, d) == (St { tail: fill(s.tail, s.tail_len as int, d), tail_len: (s.tail_len + d.len()) as u32, ..s })
    decreases d.len()
{
    reveal_with_fuel(feed, 2);
    if d.len() == 0 {
        assert(fill(s.tail, s.tail_len as int, d) =~= s.tail);
    } else {
        lemma_feed_fill(s, d.drop_last());
        let p = feed(s, d.drop_last());
        assert(fill(s.tail, s.tail_len as int, d) =~= p.tail.update(p.tail_len as int, d.last()));
    }
}

pub proof fn lemma_feed_saturated(s: St, d: Seq<u8>)
    requires s.tail_len == 4, s.len >= MAX_LEN_SPEC
    ensures feed(s, d) == s
    decreases d.len()
{
    reveal_with_fuel(feed, 2);
    if d.len() > 0 { lemma_feed_saturated(s, d.drop_last()); }
}

pub proof fn lemma_feed_len(s: St, d: Seq<u8>)
    requires s.tail_len == 4, s.len + d.len() <= MAX_LEN_SPEC
    ensures feed(s, d).tail_len == 4, feed(s, d).len == s.len + d.len()
    decreases d.len()
{
    reveal_with_fuel(feed, 2);
    if d.len() > 0 { lemma_feed_len(s, d.drop_last()); }
}

pub open spec fn last4(t: Seq<u8>, d: Seq<u8>) -> Seq<u8> {
    (t + d).subrange((t + d).len() - 4, (t + d).len() as int)
}
pub proof fn lemma_feed_tail(s: St, d: Seq<u8>)
    requires s.tail_len == 4, s.tail.len() == 4, s.len + d.len() <= MAX_LEN_SPEC
    ensures feed(s, d).tail =~= last4(s.tail, d)
    decreases d.len()
{
    reveal_with_fuel(feed, 2);
    if d.len() == 0 {
        assert(s.tail + d =~= s.tail);
    } else {
        lemma_feed_tail(s, d.drop_last());
        lemma_feed_len(s, d.drop_last());
        assert((s.tail + d).drop_last() =~= s.tail + d.drop_last());
    }
}

pub proof fn lemma_last4(t: Seq<u8>, d: Seq<u8>)
    requires t.len() == 4
    ensures
        last4(t, d).len() == 4,
        d.len() >= 4 ==> (forall|i: int| 0 <= i < 4 ==> last4(t, d)[i] == d[d.len() - 4 + i]),
        d.len() < 4 ==> (forall|i: int| 0 <= i < 4 ==> last4(t, d)[i] == (if i < 4 - d.len() { t[i + d.len()] } else { d[i - (4 - d.len())] })),
{
}

pub proof fn lemma_feed_empty(s: St)
    ensures feed(s, Seq::<u8>::empty()) == s
{
    reveal_with_fuel(feed, 2);
}
pub proof fn lemma_feed_push(s: St, d: Seq<u8>, i: int)
    requires 0 <= i < d.len()
    ensures feed(s, d.take(i + 1)) == step(feed(s, d.take(i)), d[i])
{
    reveal_with_fuel(feed, 2);
    assert(d.take(i + 1).drop_last() =~= d.take(i));
    assert(d.take(i + 1).last() == d[i]);
}

