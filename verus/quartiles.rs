// Quartile lemma (d2): from the DOCUMENTED contract of select_nth_unstable, the three nested
// selections performed by finalize_with_options (call pattern proved by the Kani obligations
// finalize.gate.*) yield the reference order statistics N/4-1, N/2-1, 3N/4-1, ordered.


pub open spec fn clt(s: Seq<u32>, v: u32) -> nat decreases s.len() {
    if s.len() == 0 { 0 } else { clt(s.drop_last(), v) + if s.last() < v { 1nat } else { 0nat } }
}
pub open spec fn cle(s: Seq<u32>, v: u32) -> nat decreases s.len() {
    if s.len() == 0 { 0 } else { cle(s.drop_last(), v) + if s.last() <= v { 1nat } else { 0nat } }
}
pub open spec fn is_order_stat(s: Seq<u32>, k: int, v: u32) -> bool {
    clt(s, v) <= k < cle(s, v)
}
/// documented contract of select_nth_unstable(k): `t` is the slice afterwards
pub open spec fn selected(s: Seq<u32>, t: Seq<u32>, k: int) -> bool {
    &&& s.len() == t.len()
    &&& 0 <= k < t.len()
    &&& s.to_multiset() =~= t.to_multiset()
    &&& forall|i: int| 0 <= i < k ==> t[i] <= t[k]
    &&& forall|i: int| k < i < t.len() ==> t[i] >= t[k]
}

pub proof fn lemma_c_add(a: Seq<u32>, b: Seq<u32>, v: u32)
    ensures clt(a + b, v) == clt(a, v) + clt(b, v), cle(a + b, v) == cle(a, v) + cle(b, v)
    decreases b.len()
{
    if b.len() == 0 { assert(a + b =~= a); }
    else {
        lemma_c_add(a, b.drop_last(), v);
        assert((a + b).drop_last() =~= a + b.drop_last());
    }
}

pub proof fn lemma_c_bounds(s: Seq<u32>, v: u32)
    ensures clt(s, v) <= cle(s, v) <= s.len()
    decreases s.len()
{
    if s.len() > 0 { lemma_c_bounds(s.drop_last(), v); }
}

pub proof fn lemma_c_all(s: Seq<u32>, v: u32)
    ensures
        (forall|i: int| 0 <= i < s.len() ==> s[i] >= v) ==> clt(s, v) == 0,
        (forall|i: int| 0 <= i < s.len() ==> s[i] <= v) ==> cle(s, v) == s.len(),
    decreases s.len()
{
    if s.len() > 0 {
        lemma_c_all(s.drop_last(), v);
        assert(forall|i: int| 0 <= i < s.drop_last().len() ==> s.drop_last()[i] == s[i]);
    }
}

/// counts depend only on the multiset
pub proof fn lemma_c_multiset(s: Seq<u32>, t: Seq<u32>, v: u32)
    requires s.to_multiset() =~= t.to_multiset()
    ensures clt(s, v) == clt(t, v), cle(s, v) == cle(t, v)
    decreases s.len()
{
    broadcast use vstd::seq_lib::group_to_multiset_ensures;
    assert(s.len() == t.len()) by { s.to_multiset_ensures(); t.to_multiset_ensures(); }
    if s.len() == 0 {
    } else {
        let x = s.last();
        // x occurs in t
        s.to_multiset_ensures(); t.to_multiset_ensures();
        assert(s.to_multiset().count(x) > 0) by { assert(s.contains(x)); }
        assert(t.contains(x));
        let j = choose|j: int| 0 <= j < t.len() && t[j] == x;
        let t2 = t.remove(j);
        assert(s.drop_last().to_multiset() =~= t2.to_multiset()) by {
            assert(s =~= s.drop_last().push(x));
            assert(s.drop_last().push(x).to_multiset() =~= s.drop_last().to_multiset().insert(x));
            assert(t2.to_multiset() =~= t.to_multiset().remove(x)) by { vstd::seq_lib::to_multiset_remove(t, j); }
        }
        lemma_c_multiset(s.drop_last(), t2, v);
        // relate t and t2
        assert(t =~= t.subrange(0, j) + seq![x] + t.subrange(j + 1, t.len() as int));
        assert(t2 =~= t.subrange(0, j) + t.subrange(j + 1, t.len() as int));
        lemma_c_add(t.subrange(0, j), seq![x], v);
        lemma_c_add(t.subrange(0, j) + seq![x], t.subrange(j + 1, t.len() as int), v);
        lemma_c_add(t.subrange(0, j), t.subrange(j + 1, t.len() as int), v);
        assert(clt(seq![x], v) == if x < v { 1nat } else { 0nat }) by { reveal_with_fuel(clt, 2); assert(seq![x].drop_last() =~= Seq::<u32>::empty()); }
        assert(cle(seq![x], v) == if x <= v { 1nat } else { 0nat }) by { reveal_with_fuel(cle, 2); assert(seq![x].drop_last() =~= Seq::<u32>::empty()); }
    }
}


/// pivot of a contract-respecting selection is the k-th order statistic
pub proof fn lemma_pivot(s: Seq<u32>, t: Seq<u32>, k: int)
    requires selected(s, t, k)
    ensures is_order_stat(s, k, t[k])
{
    let p = t[k];
    lemma_c_multiset(s, t, p);
    let l = t.subrange(0, k); let r = t.subrange(k + 1, t.len() as int);
    assert(t =~= l + seq![p] + r);
    lemma_c_add(l, seq![p], p); lemma_c_add(l + seq![p], r, p);
    lemma_c_all(r, p); lemma_c_all(l, p);
    lemma_c_bounds(l, p); lemma_c_bounds(r, p);
    assert(clt(seq![p], p) == 0 && cle(seq![p], p) == 1) by {
        reveal_with_fuel(clt, 2); reveal_with_fuel(cle, 2);
        assert(seq![p].drop_last() =~= Seq::<u32>::empty());
    }
}

/// The three nested selections of finalize_with_options yield the reference quartiles.
pub proof fn lemma_quartiles(a: Seq<u32>, a1: Seq<u32>, l0p: Seq<u32>, l1p: Seq<u32>)
    requires
        a.len() >= 4, a.len() % 4 == 0,
        selected(a, a1, a.len() / 2 - 1),
        selected(a1.subrange(0, a.len() / 2 - 1), l0p, a.len() / 4 - 1),
        selected(a1.subrange(a.len() as int / 2, a.len() as int), l1p, a.len() / 4 - 1),
    ensures
        is_order_stat(a, a.len() / 4 - 1, l0p[a.len() / 4 - 1]),
        is_order_stat(a, a.len() / 2 - 1, a1[a.len() / 2 - 1]),
        is_order_stat(a, a.len() - a.len() / 4 - 1, l1p[a.len() / 4 - 1]),
        l0p[a.len() / 4 - 1] <= a1[a.len() / 2 - 1] <= l1p[a.len() / 4 - 1],
{
    let n = a.len() as int;
    let k2 = n / 2 - 1; let k1 = n / 4 - 1;
    let q2 = a1[k2]; let q1 = l0p[k1]; let q3 = l1p[k1];
    let l0 = a1.subrange(0, k2); let l1 = a1.subrange(k2 + 1, n);
    lemma_pivot(a, a1, k2);
    lemma_pivot(l0, l0p, k1);
    lemma_pivot(l1, l1p, k1);
    assert(a1 =~= l0 + seq![q2] + l1);
    // q1 is an element of l0 (same multiset as l0p), so q1 <= q2; q3 >= q2 likewise
    broadcast use vstd::seq_lib::group_to_multiset_ensures;
    l0.to_multiset_ensures(); l0p.to_multiset_ensures(); l1.to_multiset_ensures(); l1p.to_multiset_ensures();
    assert(l0p.contains(q1)); assert(l0p.to_multiset().count(q1) > 0); assert(l0.to_multiset().count(q1) > 0); assert(l0.contains(q1));
    assert(l1p.contains(q3)); assert(l1p.to_multiset().count(q3) > 0); assert(l1.to_multiset().count(q3) > 0); assert(l1.contains(q3));
    let i1 = choose|i: int| 0 <= i < l0.len() && l0[i] == q1; assert(l0[i1] == a1[i1]);
    let i3 = choose|i: int| 0 <= i < l1.len() && l1[i] == q3; assert(l1[i3] == a1[k2 + 1 + i3]);
    assert(q1 <= q2);
    assert(q2 <= q3);
    // counts in a via a1 = l0 ++ [q2] ++ l1
    lemma_c_multiset(a, a1, q1); lemma_c_multiset(a, a1, q3);
    lemma_c_add(l0, seq![q2], q1); lemma_c_add(l0 + seq![q2], l1, q1);
    lemma_c_add(l0, seq![q2], q3); lemma_c_add(l0 + seq![q2], l1, q3);
    assert forall|v: u32| clt(seq![q2], v) == (if q2 < v { 1nat } else { 0nat }) && cle(seq![q2], v) == (if q2 <= v { 1nat } else { 0nat }) by {
        reveal_with_fuel(clt, 2); reveal_with_fuel(cle, 2);
        assert(seq![q2].drop_last() =~= Seq::<u32>::empty());
    }
    // q1: nothing in [q2] ++ l1 is below q1; q3: everything in l0 ++ [q2] is <= q3
    assert forall|i: int| 0 <= i < l1.len() implies l1[i] >= q1 by { assert(l1[i] == a1[k2 + 1 + i]); }
    assert forall|i: int| 0 <= i < l0.len() implies l0[i] <= q3 by { assert(l0[i] == a1[i]); }
    lemma_c_all(l1, q1); lemma_c_all(l0, q3);
    lemma_c_bounds(l0, q1); lemma_c_bounds(l1, q1); lemma_c_bounds(l0, q3); lemma_c_bounds(l1, q3);
}

