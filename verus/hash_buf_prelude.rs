pub enum GeneratorError { TooLargeInput, TooSmallInput, BucketsAreHalfEmpty, BucketsAreThreeQuarterEmpty }
/// GeneratorType, abstractly (see stream_prelude.rs); `new` starts with nothing fed
pub trait GeneratorType: Sized {
    type Output;
    spec fn fed(&self) -> Seq<u8>;
    spec fn result_of(d: Seq<u8>) -> Result<Self::Output, GeneratorError>;
    fn new() -> (r: Self)
        ensures r.fed() == Seq::<u8>::empty();
    fn update(&mut self, data: &[u8])
        ensures final(self).fed() == old(self).fed() + data@;
    fn finalize(&self) -> (r: Result<Self::Output, GeneratorError>)
        ensures r == Self::result_of(self.fed());
}
