
pub struct Generator {
    pub buckets: Buckets,
    pub len: u32,
    pub checksum: Checksum,
    pub tail: [u8; WINDOW_SIZE - 1],
    pub tail_len: u32,
}

impl Generator {
    /// abstract view: effective buckets, length counter, checksum, window, window fill
    pub open spec fn view(&self) -> St {
        St { buckets: self.buckets.eff(), len: self.len, ck: self.checksum.ckv(), tail: self.tail@, tail_len: self.tail_len }
    }
    /// representation invariant of the generator (holds for Generator::new(), preserved by update)
    pub open spec fn wf(&self) -> bool {
        self.tail_len <= 4 && (self.tail_len < 4 ==> self.len == 0) && self.len <= MAX_LEN_SPEC && self.buckets.eff().len() == nb()
    }

    #[verifier::external_body]
    fn b_mapping(v0: u8, v1: u8, v2: u8, v3: u8) -> (r: u8)
        ensures r == bmap(v0, v1, v2, v3)
    { unimplemented!() }

    /// vacuity canary: must FAIL (the precondition of update is satisfiable)
    proof fn canary_update_pre(g: Generator)
        requires g.wf()
        ensures false
    {}

