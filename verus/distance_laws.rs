// C08: laws of the total distance, as consequences of the part contracts.
// The four part distances are abstract functions here; their hypotheses are exactly
// what the Kani obligations prove on the real code / frozen spec:
//   body  : compare.sum_of_parts.* (decomposition), *.sub_distance.eq_ref, x86_*.eq_ref,
//           spec.byte_dist.laws (per byte: symmetric, zero iff equal, <= 24, 24 attained)
//   cksum : dist_checksum.distance_{1,3}.eq_ref ; qratio: spec.qdist.laws ; length: spec.ldist.laws
pub open spec fn bsum(a: Seq<int>) -> int decreases a.len() { if a.len() == 0 { 0 } else { bsum(a.drop_last()) + a.last() } }

/// a sum of per-byte distances in 0..=24 is 0 iff every term is 0, and is at most 24 per byte
pub proof fn lemma_body_sum(t: Seq<int>)
    requires forall|i: int| 0 <= i < t.len() ==> 0 <= #[trigger] t[i] <= 24
    ensures 0 <= bsum(t) <= 24 * t.len(), (bsum(t) == 0) <==> (forall|i: int| 0 <= i < t.len() ==> #[trigger] t[i] == 0)
    decreases t.len()
{
    if t.len() > 0 {
        lemma_body_sum(t.drop_last());
        assert(forall|i: int| 0 <= i < t.drop_last().len() ==> t.drop_last()[i] == t[i]);
        assert(24 * (t.len() - 1) + 24 == 24 * t.len()) by (nonlinear_arith);
        if bsum(t) == 0 {
            assert forall|i: int| 0 <= i < t.len() implies t[i] == 0 by {
                if i < t.len() - 1 { assert(t.drop_last()[i] == t[i]); }
            }
        }
    }
}
/// maximum attained: all terms 24 gives 24 * len
pub proof fn lemma_body_max_attained(t: Seq<int>)
    requires forall|i: int| 0 <= i < t.len() ==> #[trigger] t[i] == 24
    ensures bsum(t) == 24 * t.len()
    decreases t.len()
{
    if t.len() > 0 {
        lemma_body_max_attained(t.drop_last());
        assert(24 * (t.len() - 1) + 24 == 24 * t.len()) by (nonlinear_arith);
    }
}

pub struct Parts { pub body: int, pub ck: int, pub q: int, pub l: int }
pub open spec fn total(p: Parts, with_length: bool) -> int { p.body + p.ck + p.q + if with_length { p.l } else { 0 } }
pub open spec fn in_range(p: Parts, nbody: int, nck: int) -> bool {
    0 <= p.body <= 24 * nbody && 0 <= p.ck <= nck && 0 <= p.q <= 168 && 0 <= p.l <= 1536
}
pub open spec fn max_distance(nbody: int, nck: int, with_length: bool) -> int { 24 * nbody + nck + 168 + if with_length { 1536int } else { 0 } }

pub proof fn lemma_total_laws(ab: Parts, ba: Parts, nbody: int, nck: int)
    requires
        in_range(ab, nbody, nck), in_range(ba, nbody, nck),
        // each part is symmetric
        ab.body == ba.body, ab.ck == ba.ck, ab.q == ba.q, ab.l == ba.l,
    ensures
        // symmetric in both modes
        total(ab, true) == total(ba, true), total(ab, false) == total(ba, false),
        // bounded by max_distance for the mode used
        total(ab, true) <= max_distance(nbody, nck, true), total(ab, false) <= max_distance(nbody, nck, false),
        // default = no-length + length distance, hence never smaller
        total(ab, true) == total(ab, false) + ab.l, total(ab, true) >= total(ab, false),
        // zero in default mode iff every part is zero (each part is zero iff its operands are equal)
        (total(ab, true) == 0) <==> (ab.body == 0 && ab.ck == 0 && ab.q == 0 && ab.l == 0),
{}

/// clearing both checksums lowers the distance by exactly the checksum distance
pub proof fn lemma_clear_checksum(ab: Parts, cleared: Parts, with_length: bool)
    requires cleared.body == ab.body, cleared.q == ab.q, cleared.l == ab.l, cleared.ck == 0
    ensures total(cleared, with_length) == total(ab, with_length) - ab.ck
{}
/// the bound is attained when every part attains its own maximum (covers in the part obligations)
pub proof fn lemma_max_attained(nbody: int, nck: int, with_length: bool)
    ensures total(Parts { body: 24 * nbody, ck: nck, q: 168, l: 1536 }, with_length) == max_distance(nbody, nck, with_length)
{}
