// C10: the acceptance gate of finalization (spec shape = ref_gate of the Kani spec library,
// which the obligations finalize.gate.* prove the real code implements for every state and
// option setting) and its lattice laws.  The payload (checksum, length code, Q ratios, body)
// is a function of (state, Q-ratio mode, quartiles-or-dummies) only -- obligations
// finalize.header.* / finalize.body.* -- so two option settings that both accept the same
// state in the same Q-ratio mode produce the same hash.
pub enum Rej { TooLarge, TooSmall, ThreeQuarterEmpty, HalfEmpty }
pub struct Opts { pub conservative: bool, pub small: bool, pub half: bool, pub quarter: bool }

/// 0 TooSmall, 1 ValidWhenOptimistic, 2 Valid, 3 TooLarge
pub open spec fn validity(min: int, min_cons: int, max: int, len: int) -> int {
    if len < min { 0 } else if len < min_cons { 1 } else if len <= max { 2 } else { 3 }
}
pub open spec fn is_err_on(v: int, conservative: bool) -> bool { v == 0 || v == 3 || (v == 1 && conservative) }

pub open spec fn gate(v: int, o: Opts, q3_zero: bool, nonzero: int, min_nonzero: int) -> Option<Rej> {
    if is_err_on(v, o.conservative) && v == 3 { Some(Rej::TooLarge) }
    else if is_err_on(v, o.conservative) && !o.small { Some(Rej::TooSmall) }
    else if q3_zero && !o.quarter { Some(Rej::ThreeQuarterEmpty) }
    else if nonzero < min_nonzero && !(o.half || o.quarter) { Some(Rej::HalfEmpty) }
    else { None }
}
/// o2 is at least as permissive as o1
pub open spec fn le(o1: Opts, o2: Opts) -> bool {
    (o2.conservative ==> o1.conservative) && (o1.small ==> o2.small) && (o1.half ==> o2.half) && (o1.quarter ==> o2.quarter)
}
/// which quartiles reach the payload
pub open spec fn effective_quartiles(p: (int, int, int)) -> (int, int, int) { if p.2 == 0 { (1, 1, 1) } else { p } }

pub proof fn lemma_widening(v: int, o1: Opts, o2: Opts, q3_zero: bool, nonzero: int, min_nonzero: int)
    requires le(o1, o2), 0 <= v <= 3
    ensures
        // more permissive never turns success into failure
        gate(v, o1, q3_zero, nonzero, min_nonzero).is_none() ==> gate(v, o2, q3_zero, nonzero, min_nonzero).is_none(),
        // too large is never waivable
        v == 3 ==> gate(v, o2, q3_zero, nonzero, min_nonzero) == Some(Rej::TooLarge),
        // a data-length error exactly when the classification is an error for the mode and small inputs are not allowed
        (gate(v, o1, q3_zero, nonzero, min_nonzero) == Some(Rej::TooLarge) || gate(v, o1, q3_zero, nonzero, min_nonzero) == Some(Rej::TooSmall))
            <==> (is_err_on(v, o1.conservative) && (v == 3 || !o1.small)),
{}

pub proof fn lemma_quarter_implies_half(v: int, o: Opts, q3_zero: bool, nonzero: int, min_nonzero: int)
    requires o.quarter
    ensures gate(v, o, q3_zero, nonzero, min_nonzero) == gate(v, Opts { half: true, ..o }, q3_zero, nonzero, min_nonzero)
{}
