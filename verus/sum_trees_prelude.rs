// Generic re-association: a sum over a concatenation is the sum of the sums; hence
// a body distance computed chunk by chunk equals the flat per-byte reference sum.
pub open spec fn sum(s: Seq<int>) -> int
    decreases s.len()
{
    if s.len() == 0 { 0 } else { sum(s.drop_last()) + s.last() }
}

pub proof fn lemma_sum_concat(a: Seq<int>, b: Seq<int>)
    ensures sum(a + b) == sum(a) + sum(b)
    decreases b.len()
{
    if b.len() == 0 {
        assert(a + b =~= a);
    } else {
        lemma_sum_concat(a, b.drop_last());
        assert((a + b).drop_last() =~= a + b.drop_last());
        assert((a + b).last() == b.last());
    }
}

/// terms t[0..n*c) summed chunk-wise (n chunks of c terms) == summed flat
pub open spec fn chunk_sums(t: Seq<int>, c: int, n: int) -> Seq<int> {
    Seq::new(n as nat, |k: int| sum(t.subrange(k * c, k * c + c)))
}

pub proof fn lemma_chunked_sum(t: Seq<int>, c: int, n: int)
    requires c > 0, n >= 0, t.len() == n * c
    ensures sum(chunk_sums(t, c, n)) == sum(t)
    decreases n
{
    if n == 0 {
        assert(t.len() == 0) by (nonlinear_arith) requires t.len() == n * c, n == 0;
        assert(chunk_sums(t, c, n) =~= Seq::<int>::empty());
    } else {
        assert((n - 1) * c == n * c - c) by (nonlinear_arith);
        assert(n * c >= c) by (nonlinear_arith) requires n >= 1, c > 0;
        let head = t.subrange(0, (n - 1) * c);
        let tail = t.subrange((n - 1) * c, n * c);
        lemma_chunked_sum(head, c, n - 1);
        assert(t =~= head + tail);
        lemma_sum_concat(head, tail);
        assert(chunk_sums(t, c, n).drop_last() =~= chunk_sums(head, c, n - 1)) by {
            assert forall|k: int| 0 <= k < n - 1 implies chunk_sums(t, c, n)[k] == chunk_sums(head, c, n - 1)[k] by {
                assert(k * c + c <= (n - 1) * c) by (nonlinear_arith) requires 0 <= k < n - 1, c > 0;
                assert(k * c >= 0) by (nonlinear_arith) requires 0 <= k, c > 0;
                assert(t.subrange(k * c, k * c + c) =~= head.subrange(k * c, k * c + c));
            }
        }
        assert(chunk_sums(t, c, n).last() == sum(tail)) by {
            assert((n - 1) * c + c == n * c) by (nonlinear_arith);
        }
    }
}
