#[verifier::external_type_specification]
#[verifier::external_body]
pub struct ExIoError(std::io::Error);

/// `std::io::Read` with a ghost history: everything the reader has delivered so far.
/// `read`'s spec DEFINES the history and otherwise states only the documented
/// contract n <= buf.len() (a reader that breaks it is the subject of the Kani
/// obligations stream.lying_reader.*).
#[verifier::external_trait_specification]
#[verifier::external_trait_extension(ReadSpec via ReadSpecImpl)]
pub trait ExRead {
    type ExternalTraitSpecificationFor: std::io::Read;
    spec fn delivered(&self) -> Seq<u8>;
    /// the reader has signalled end of stream (a read into a non-empty buffer returned Ok(0))
    spec fn ended(&self) -> bool;
    fn read(&mut self, buf: &mut [u8]) -> (r: std::io::Result<usize>)
        ensures
            final(buf)@.len() == old(buf)@.len(),
            old(self).delivered().is_prefix_of(final(self).delivered()),
            match r {
                Ok(n) => n <= old(buf)@.len() && final(self).delivered() == old(self).delivered() + final(buf)@.take(n as int)
                    && final(self).ended() == (old(self).ended() || (n == 0 && old(buf)@.len() > 0)),
                Err(e) => final(self).delivered() == old(self).delivered() && final(self).ended() == old(self).ended(),
            };
}

/// "this error is ErrorKind::Interrupted" (a transient interruption)
pub uninterp spec fn is_interrupted_spec(e: std::io::Error) -> bool;

/// the crate's one-line helper `is_interrupted` (present after the C12 repair):
/// external_body, contract = its definition; Kani obligation stream.is_interrupted.eq_ref
#[verifier::external_body]
fn is_interrupted(err: &std::io::Error) -> (r: bool)
    ensures r == is_interrupted_spec(*err)
{ unimplemented!() }

pub enum GeneratorError { TooLargeInput, TooSmallInput, BucketsAreHalfEmpty, BucketsAreThreeQuarterEmpty }

pub enum GeneratorOrIOError {
    GeneratorError(GeneratorError),
    IOError(std::io::Error),
}
impl From<GeneratorError> for GeneratorOrIOError {
    fn from(value: GeneratorError) -> (r: Self)
        ensures r == GeneratorOrIOError::GeneratorError(value)
    {
        GeneratorOrIOError::GeneratorError(value)
    }
}
impl From<std::io::Error> for GeneratorOrIOError {
    fn from(value: std::io::Error) -> (r: Self)
        ensures r == GeneratorOrIOError::IOError(value)
    {
        GeneratorOrIOError::IOError(value)
    }
}
impl vstd::std_specs::convert::FromSpecImpl<GeneratorError> for GeneratorOrIOError {
    open spec fn obeys_from_spec() -> bool { true }
    open spec fn from_spec(v: GeneratorError) -> Self { GeneratorOrIOError::GeneratorError(v) }
}
impl vstd::std_specs::convert::FromSpecImpl<std::io::Error> for GeneratorOrIOError {
    open spec fn obeys_from_spec() -> bool { true }
    open spec fn from_spec(v: std::io::Error) -> Self { GeneratorOrIOError::IOError(v) }
}

/// the crate's GeneratorType, abstractly: `fed` = all bytes passed to update so far;
/// `result_of(d)` = what finalize yields after feeding d (instantiated by the C01
/// contracts of update/finalize for the real Generator<T>)
pub trait GeneratorType {
    type Output;
    spec fn fed(&self) -> Seq<u8>;
    spec fn result_of(d: Seq<u8>) -> Result<Self::Output, GeneratorError>;
    fn update(&mut self, data: &[u8])
        ensures final(self).fed() == old(self).fed() + data@;
    fn finalize(&self) -> (r: Result<Self::Output, GeneratorError>)
        ensures r == Self::result_of(self.fed());
}

pub open spec fn suffix_from(all: Seq<u8>, start: Seq<u8>) -> Seq<u8> {
    all.skip(start.len() as int)
}

