/// reference formula of the integer mode: ((q * 100) div q3) mod 16 over the mathematical integers
pub open spec fn ref_qratio_int(q: u32, q3: u32) -> u8 {
    (((q as int * 100) / (q3 as int)) % 16) as u8
}
