
// ---------------------------------------------------------------- consequences of the update contract
// C03: chunking independence.  Feeding pieces one after the other equals feeding their concatenation.
pub open spec fn concat_all(pieces: Seq<Seq<u8>>) -> Seq<u8>
    decreases pieces.len()
{
    if pieces.len() == 0 { Seq::<u8>::empty() } else { concat_all(pieces.drop_last()) + pieces.last() }
}
pub open spec fn feed_pieces(s: St, pieces: Seq<Seq<u8>>) -> St
    decreases pieces.len()
{
    if pieces.len() == 0 { s } else { feed(feed_pieces(s, pieces.drop_last()), pieces.last()) }
}
pub proof fn lemma_chunking_independent(s: St, pieces: Seq<Seq<u8>>)
    ensures feed_pieces(s, pieces) == feed(s, concat_all(pieces))
    decreases pieces.len()
{
    if pieces.len() == 0 {
        lemma_feed_empty(s);
    } else {
        lemma_chunking_independent(s, pieces.drop_last());
        lemma_feed_concat(s, concat_all(pieces.drop_last()), pieces.last());
    }
}

// C11: the fed length is reported exactly below 2^32 and as unknown from 2^32 on.
pub open spec fn init_state(b: Seq<u32>, ck: Seq<u8>, t: Seq<u8>) -> St {
    St { buckets: b, len: 0, ck: ck, tail: t, tail_len: 0 }
}
pub open spec fn processed_len_spec(s: St) -> Option<u32> {
    if s.len as int + s.tail_len as int <= 0xffff_ffff { Some((s.len + s.tail_len) as u32) } else { None }
}
pub proof fn lemma_fed_length(b: Seq<u32>, ck: Seq<u8>, t: Seq<u8>, d: Seq<u8>)
    requires t.len() == 4
    ensures
        feed(init_state(b, ck, t), d).tail_len == (if d.len() < 4 { d.len() as u32 } else { 4u32 }),
        feed(init_state(b, ck, t), d).len == (if d.len() < 4 { 0u32 } else if d.len() - 4 <= MAX_LEN_SPEC { (d.len() - 4) as u32 } else { MAX_LEN_SPEC }),
        d.len() < 0x1_0000_0000 ==> processed_len_spec(feed(init_state(b, ck, t), d)) == Some(d.len() as u32),
        d.len() >= 0x1_0000_0000 ==> processed_len_spec(feed(init_state(b, ck, t), d)) == None::<u32>,
    decreases d.len()
{
    reveal_with_fuel(feed, 2);
    if d.len() > 0 {
        lemma_fed_length(b, ck, t, d.drop_last());
    }
}

// C15: any property of the checksum that holds initially and after every single checksum
// update (hypothesis = leaf obligations checksum.update1.48: result <= 48 for ALL inputs;
// new(): 0) holds after feeding any data.  Hence generated 48-bucket hashes carry a valid
// checksum.
pub uninterp spec fn ck_valid(ck: Seq<u8>) -> bool;
pub proof fn lemma_checksum_invariant(s: St, d: Seq<u8>)
    requires
        ck_valid(s.ck),
        forall|ck: Seq<u8>, c: u8, p: u8| #[trigger] ck_valid(ck_upd(ck, c, p)),
    ensures ck_valid(feed(s, d).ck)
    decreases d.len()
{
    reveal_with_fuel(feed, 2);
    if d.len() > 0 {
        lemma_checksum_invariant(s, d.drop_last());
    }
}
