use core::fmt::Write;
use crate::FuzzyHashType;
use crate::hash::HexStringPrefix;
struct W { buf: [u8; 40], n: usize, calls: usize }
impl Write for W {
    fn write_str(&mut self, s: &str) -> core::fmt::Result {
        let b = s.as_bytes();
        let mut i = 0;
        while i < b.len() { if self.n < 40 { self.buf[self.n] = b[i]; } self.n += 1; i += 1; }
        self.calls += 1;
        Ok(())
    }
}
#[allow(unsafe_code)]
fn from_utf8_model(v: &[u8]) -> Result<&str, core::str::Utf8Error> {
    // assumed contract of core::str::from_utf8 on ASCII input (the only case the obligation needs)
    let mut i = 0;
    while i < v.len() { assert!(v[i] < 0x80, "non-ASCII reached from_utf8"); i += 1; }
    Ok(unsafe { core::str::from_utf8_unchecked(v) })
}
#[kani::proof]
#[kani::unwind(42)]
#[kani::stub(core::str::from_utf8, from_utf8_model)]
fn display_short() {
    let raw: [u8; 15] = kani::any();
    let h = crate::hashes::Short::try_from(&raw).unwrap();
    let mut w = W { buf: [0; 40], n: 0, calls: 0 };
    let mut f = core::fmt::Formatter::new(&mut w, core::fmt::FormattingOptions::new());
    let r = core::fmt::Display::fmt(&h, &mut f);
    assert!(r.is_ok());
    let mut exp = [0u8; 32];
    h.store_into_str_bytes(&mut exp, HexStringPrefix::WithVersion).unwrap();
    assert!(w.n == 32 && w.calls == 1);
    let i: usize = kani::any(); kani::assume(i < 32);
    assert!(w.buf[i] == exp[i]);
}
