//! C13 probe: compare_with against a ghost hash type (trait contract)
#![allow(unsafe_code)]
use super::*;
use crate::compare::ComparisonConfiguration;
use crate::errors::{OperationError, ParseError, ParseErrorEither, ParseErrorSide};
use crate::hash::HexStringPrefix;
use crate::hash::qratios::FuzzyHashQRatios;
use crate::length::FuzzyHashLengthEncoding;

static mut PARSE_CALLS: usize = 0;
static mut PARSE_ARGS: [(usize, usize); 2] = [(0, 0); 2];
static mut PARSE_RES: [Option<Result<u8, ParseError>>; 2] = [None, None];
static mut DIST: u32 = 0;
static mut CMP_ARGS: (u8, u8) = (0, 0);

#[derive(Debug, Clone, PartialEq, Eq)]
pub struct Ghost(u8);
impl core::fmt::Display for Ghost {
    fn fmt(&self, _f: &mut core::fmt::Formatter<'_>) -> core::fmt::Result { unimplemented!() }
}
impl core::str::FromStr for Ghost {
    type Err = ParseError;
    fn from_str(s: &str) -> Result<Self, ParseError> {
        unsafe {
            let c = PARSE_CALLS;
            assert!(c < 2);
            PARSE_ARGS[c] = (s.as_ptr() as usize, s.len());
            PARSE_CALLS = c + 1;
            PARSE_RES[c].unwrap().map(Ghost)
        }
    }
}
type RealInner = <FuzzyHashParams<1, 48> as ConstrainedFuzzyHashParams>::InnerFuzzyHashType;
impl FuzzyHashType for Ghost {
    type ChecksumType = <RealInner as FuzzyHashType>::ChecksumType;
    type BodyType = <RealInner as FuzzyHashType>::BodyType;
    const NUMBER_OF_BUCKETS: usize = 48;
    const SIZE_IN_BYTES: usize = 15;
    const LEN_IN_STR_EXCEPT_PREFIX: usize = 30;
    const LEN_IN_STR: usize = 32;
    fn checksum(&self) -> &Self::ChecksumType { unimplemented!() }
    fn length(&self) -> &FuzzyHashLengthEncoding { unimplemented!() }
    fn qratios(&self) -> &FuzzyHashQRatios { unimplemented!() }
    fn body(&self) -> &Self::BodyType { unimplemented!() }
    fn from_str_bytes(_b: &[u8], _p: Option<HexStringPrefix>) -> Result<Self, ParseError> { unimplemented!() }
    fn store_into_bytes(&self, _o: &mut [u8]) -> Result<usize, OperationError> { unimplemented!() }
    fn store_into_str_bytes(&self, _o: &mut [u8], _p: HexStringPrefix) -> Result<usize, OperationError> { unimplemented!() }
    fn max_distance(_c: ComparisonConfiguration) -> u32 { unimplemented!() }
    fn compare_with_config(&self, other: &Self, config: ComparisonConfiguration) -> u32 {
        assert!(config == ComparisonConfiguration::Default);
        unsafe { CMP_ARGS = (self.0, other.0); DIST }
    }
    fn clear_checksum(&mut self) { unimplemented!() }
}
impl private::SealedFuzzyHashes for Ghost {}
impl ConstrainedFuzzyHashType for Ghost {
    type Params = FuzzyHashParams<1, 48>;
    fn new(_inner: RealInner) -> Self { unimplemented!() }
}

fn any_res() -> Result<u8, ParseError> {
    match kani::any::<u8>() % 6 {
        0 => Err(ParseError::LengthIsTooLarge),
        1 => Err(ParseError::InvalidPrefix),
        2 => Err(ParseError::InvalidCharacter),
        3 => Err(ParseError::InvalidStringLength),
        4 => Err(ParseError::InvalidChecksum),
        _ => Ok(kani::any()),
    }
}

#[kani::proof]
fn compare_with_ghost() {
    let l = "left"; let r = "right!";
    let (pl, pr) = (any_res(), any_res());
    unsafe { PARSE_CALLS = 0; PARSE_RES = [Some(pl), Some(pr)]; DIST = kani::any(); }
    let got = crate::compare_with::<Ghost>(l, r);
    unsafe {
        assert!(PARSE_CALLS >= 1 && PARSE_ARGS[0] == (l.as_ptr() as usize, l.len()));
        match (pl, pr) {
            (Ok(a), Ok(b)) => {
                assert!(PARSE_CALLS == 2 && PARSE_ARGS[1] == (r.as_ptr() as usize, r.len()));
                assert!(CMP_ARGS == (a, b));
                assert!(got == Ok(DIST));
            }
            (Err(e), _) => { assert!(PARSE_CALLS == 1); assert!(got == Err(ParseErrorEither(ParseErrorSide::Left, e))); }
            (Ok(_), Err(e)) => { assert!(PARSE_CALLS == 2); assert!(got == Err(ParseErrorEither(ParseErrorSide::Right, e))); }
        }
    }
}
