//! in-crate kani harnesses (experiment)
use crate::compare::dist_body;

fn ref_dibit(x: u8, y: u8) -> u32 {
    let d = if x > y { x - y } else { y - x } as u32;
    if d == 3 { 6 } else { d }
}

fn ref_sub64(x: u64, y: u64) -> u32 {
    let mut s = 0u32;
    let mut i = 0;
    while i < 32 {
        s += ref_dibit(((x >> (2 * i)) & 3) as u8, ((y >> (2 * i)) & 3) as u8);
        i += 1;
    }
    s
}

#[kani::proof]
#[kani::unwind(33)]
fn sub_distance_64_matches_ref() {
    let x: u64 = kani::any();
    let y: u64 = kani::any();
    let a = [x.to_ne_bytes(), [0u8; 8], [0u8; 8], [0u8; 8]];
    let _ = a;
    assert_eq!(dist_body::verif_sub64(x, y), ref_sub64(x, y));
}

#[cfg(feature = "simd-per-arch")]
#[kani::proof]
fn sse2_smoke() {
    let a: [u8; 32] = kani::any();
    let b: [u8; 32] = kani::any();
    let d = dist_body::verif_sse2_32(&a, &b);
    assert!(d <= 768);
}
#[cfg(feature = "simd-per-arch")]
#[kani::proof]
fn avx2_smoke() {
    let a: [u8; 32] = kani::any();
    let b: [u8; 32] = kani::any();
    let d = dist_body::verif_avx2_32(&a, &b);
    assert!(d <= 768);
}

use crate::generate::bucket_aggregation as agg;
#[cfg(feature = "simd-per-arch")]
fn agg_smoke(which: u8) {
    let b: [u32; 48] = kani::any();
    let q1: u32 = kani::any();
    let q2: u32 = kani::any();
    let q3: u32 = kani::any();
    kani::assume(q1 <= q2 && q2 <= q3);
    let mut o1 = [0u8; 12];
    let mut o2 = [0u8; 12];
    agg::verif_agg48(0, &mut o1, &b, q1, q2, q3);
    agg::verif_agg48(which, &mut o2, &b, q1, q2, q3);
    assert!(o1 == o2);
}
#[cfg(feature = "simd-per-arch")]
#[kani::proof]
#[kani::unwind(34)]
#[kani::stub(core::arch::x86_64::_mm_packs_epi16, agg::verif_stubs::model_mm_packs_epi16)]
fn agg_sse2() { agg_smoke(1) }
#[cfg(feature = "simd-per-arch")]
#[kani::proof]
#[kani::unwind(34)]
#[kani::stub(core::arch::x86_64::_mm_shuffle_epi8, agg::verif_stubs::model_mm_shuffle_epi8)]
fn agg_ssse3() { agg_smoke(2) }
#[cfg(feature = "simd-per-arch")]
#[kani::proof]
#[kani::unwind(34)]
#[kani::stub(core::arch::x86_64::_mm256_shuffle_epi8, agg::verif_stubs::model_mm256_shuffle_epi8)]
fn agg_avx2() { agg_smoke(3) }

pub(crate) fn ref_hexval(c: u8) -> Option<u8> {
    match c {
        b'0'..=b'9' => Some(c - b'0'),
        b'a'..=b'f' => Some(c - b'a' + 10),
        b'A'..=b'F' => Some(c - b'A' + 10),
        _ => None,
    }
}
pub(crate) fn ref_decode_rev_1(src: &[u8]) -> Option<u8> {
    if src.len() != 2 { return None; }
    match (ref_hexval(src[0]), ref_hexval(src[1])) {
        (Some(lo), Some(hi)) => Some(hi << 4 | lo),
        _ => None,
    }
}
pub(crate) fn ref_all_hex(src: &[u8], n: usize) -> bool {
    if src.len() != n * 2 { return false; }
    let mut i = 0;
    while i < src.len() {
        if ref_hexval(src[i]).is_none() { return false; }
        i += 1;
    }
    true
}

#[kani::proof_for_contract(crate::parse::hex_str::decode_rev_1)]
fn pfc_decode_rev_1() {
    let buf: [u8; 3] = kani::any();
    let n: usize = kani::any();
    kani::assume(n <= 3);
    let _ = crate::parse::hex_str::decode_rev_1(&buf[..n]);
}

#[kani::proof_for_contract(crate::parse::hex_str::decode_rev_array)]
#[kani::stub_verified(crate::parse::hex_str::decode_rev_1)]
#[kani::unwind(8)]
fn pfc_decode_rev_array_3() {
    let buf: [u8; 7] = kani::any();
    let n: usize = kani::any();
    kani::assume(n <= 7);
    let mut dst = [0u8; 3];
    let _ = crate::parse::hex_str::decode_rev_array::<3>(&mut dst, &buf[..n]);
}

#[kani::proof_for_contract(crate::buckets::FuzzyHashBucketsData::increment)]
fn pfc_increment() {
    let mut b = crate::buckets::FuzzyHashBucketsData::<128> { buckets: kani::any() };
    b.increment(kani::any());
}

use crate::hash::HexStringPrefix;
use crate::FuzzyHashType;
use crate::errors::ParseError;

type InnerNormal = crate::hash::inner::FuzzyHash<1, 32, 128, 35, 72>;
type InnerShort = crate::hash::inner::FuzzyHash<1, 12, 48, 15, 32>;

fn ref_parse<const NB: usize, const LEN: usize>(s: &[u8], mode: Option<HexStringPrefix>) -> Result<[u8; NB], ParseError> {
    // LEN = with prefix
    let with_prefix = match mode {
        None => {
            if s.len() == LEN - 2 { false } else if s.len() == LEN { true } else { return Err(ParseError::InvalidStringLength); }
        }
        Some(HexStringPrefix::Empty) => { if s.len() != LEN - 2 { return Err(ParseError::InvalidStringLength); } false }
        Some(HexStringPrefix::WithVersion) => { if s.len() != LEN { return Err(ParseError::InvalidStringLength); } true }
    };
    let off = if with_prefix { 2 } else { 0 };
    if with_prefix && !(s[0] == b'T' && s[1] == b'1') { return Err(ParseError::InvalidPrefix); }
    let mut out = [0u8; NB];
    let hdr = NB - (LEN - 2) / 2 + 0; // placeholder
    let _ = hdr;
    let mut i = 0;
    while i < NB {
        let a = ref_hexval(s[off + 2 * i]);
        let b = ref_hexval(s[off + 2 * i + 1]);
        match (a, b) {
            (Some(a), Some(b)) => { out[i] = a << 4 | b; }
            _ => return Err(ParseError::InvalidCharacter),
        }
        i += 1;
    }
    Ok(out)
}

#[kani::proof]
#[kani::unwind(40)]
fn parse_short_total() {
    let buf: [u8; 36] = kani::any();
    let n: usize = kani::any();
    kani::assume(n <= 36);
    let mode: u8 = kani::any();
    let mode = match mode { 0 => None, 1 => Some(HexStringPrefix::Empty), _ => Some(HexStringPrefix::WithVersion) };
    let r = InnerShort::from_str_bytes(&buf[..n], mode);
    let e = ref_parse::<15, 32>(&buf[..n], mode);
    assert!(r.is_ok() == e.is_ok());
    if let Ok(h) = r {
        let mut out = [0u8; 15];
        h.store_into_bytes(&mut out).unwrap();
        let e = e.unwrap();
        // header bytes nibble swapped
        assert!(out[0] == e[0].rotate_left(4));
        assert!(out[1] == e[1].rotate_left(4));
        assert!(out[2] == e[2].rotate_left(4));
        let mut i = 3;
        while i < 15 { assert!(out[i] == e[i]); i += 1; }
    }
}


// ---- alloc experiment
#[allow(unsafe_code)]
pub(crate) unsafe fn no_alloc(_l: core::alloc::Layout) -> *mut u8 {
    panic!("heap allocation reached");
}
#[kani::proof]
#[kani::stub(alloc::alloc::alloc, no_alloc)]
#[kani::stub(alloc::alloc::alloc_zeroed, no_alloc)]
fn alloc_detected() {
    let n: usize = kani::any();
    kani::assume(n > 0 && n < 4);
    let v = alloc::vec![1u8; n];
    assert!(v.len() == n);
}
#[kani::proof]
#[kani::stub(alloc::alloc::alloc, no_alloc)]
#[kani::stub(alloc::alloc::alloc_zeroed, no_alloc)]
fn alloc_detected_z() {
    let n: usize = kani::any();
    kani::assume(n > 0 && n < 4);
    let v = alloc::vec![0u8; n];
    assert!(v.len() == n);
}
#[kani::proof]
#[kani::stub(alloc::alloc::alloc, no_alloc)]
#[kani::stub(alloc::alloc::alloc_zeroed, no_alloc)]
fn alloc_free_compare() {
    let a: u8 = kani::any();
    let b: u8 = kani::any();
    let d = crate::compare::dist_qratios::distance(a, b);
    assert!(d <= 168);
}


// ---------------- probes batch 2
fn ref_body_dist(a: &[u8], b: &[u8]) -> u32 {
    let mut s = 0u32;
    let mut i = 0;
    while i < a.len() {
        let mut j = 0;
        while j < 4 {
            s += ref_dibit((a[i] >> (2 * j)) & 3, (b[i] >> (2 * j)) & 3);
            j += 1;
        }
        i += 1;
    }
    s
}

#[kani::proof]
#[kani::unwind(33)]
fn p_distance_32_pseudo() {
    let a: [u8; 32] = kani::any();
    let b: [u8; 32] = kani::any();
    assert_eq!(dist_body::distance_32_pseudo64_probe(&a, &b), ref_body_dist(&a, &b));
}

fn ref_ring(x: u8, y: u8, n: u32) -> u32 {
    let d = if x > y { (x - y) as u32 } else { (y - x) as u32 };
    if d <= n - d { d } else { n - d }
}
fn ref_qdist(a: u8, b: u8) -> u32 {
    let f = |x: u8, y: u8| { let d = ref_ring(x, y, 16); if d <= 1 { d } else { (d - 1) * 12 } };
    f(a & 15, b & 15) + f(a >> 4, b >> 4)
}
fn ref_ldist(a: u8, b: u8) -> u32 { let d = ref_ring(a, b, 256); if d <= 1 { d } else { d * 12 } }

#[kani::proof]
fn p_qratios_and_length_distance() {
    let a: u8 = kani::any();
    let b: u8 = kani::any();
    assert_eq!(crate::compare::dist_qratios::distance(a, b), ref_qdist(a, b));
    assert_eq!(crate::compare::dist_length::distance(a, b), ref_ldist(a, b));
}

// C09: length encoding over the full u32 domain
const REF_TOP: [u32; 170] = [1, 2, 3, 5, 7, 11, 17, 25, 38, 57, 86, 129, 194, 291, 437, 656, 854, 1110, 1443, 1876, 2439, 3171, 3475, 3823, 4205, 4626, 5088, 5597, 6157, 6772, 7450, 8195, 9014, 9916, 10907, 11998, 13198, 14518, 15970, 17567, 19323, 21256, 23382, 25720, 28292, 31121, 34233, 37656, 41422, 45564, 50121, 55133, 60646, 66711, 73382, 80721, 88793, 97672, 107439, 118183, 130002, 143002, 157302, 173032, 190335, 209369, 230306, 253337, 278670, 306538, 337191, 370911, 408002, 448802, 493682, 543050, 597356, 657091, 722800, 795081, 874589, 962048, 1058252, 1164078, 1280486, 1408534, 1549388, 1704327, 1874759, 2062236, 2268459, 2495305, 2744836, 3019320, 3321252, 3653374, 4018711, 4420582, 4862641, 5348905, 5883796, 6472176, 7119394, 7831333, 8614467, 9475909, 10423501, 11465851, 12612437, 13873681, 15261050, 16787154, 18465870, 20312458, 22343706, 24578077, 27035886, 29739474, 32713425, 35984770, 39583245, 43541573, 47895730, 52685306, 57953837, 63749221, 70124148, 77136564, 84850228, 93335252, 102668779, 112935659, 124229227, 136652151, 150317384, 165349128, 181884040, 200072456, 220079703, 242087671, 266296456, 292926096, 322218735, 354440623, 389884688, 428873168, 471760495, 518936559, 570830240, 627913311, 690704607, 759775136, 835752671, 919327967, 1011260767, 1112386880, 1223623232, 1345985727, 1480584256, 1628642751, 1791507135, 1970657856, 2167723648, 2384496256, 2622945920, 2885240448, 3173764736, 3491141248, 3840255616, 4224281216];

#[kani::proof]
#[kani::unwind(12)]
fn p_length_encode_all_u32() {
    let len: u32 = kani::any();
    let c: usize = kani::any();
    kani::assume(c < 170);
    // witness-indexed characterisation: c is THE code of len iff REF_TOP[c-1] < len <= REF_TOP[c]
    let is_code = len <= REF_TOP[c] && (c == 0 || len > REF_TOP[c - 1]);
    let r = crate::length::FuzzyHashLengthEncoding::new(len);
    assert!(r.is_some() == (len <= 4224281216));
    if let Some(e) = r {
        assert!((e.value() as usize == c) == is_code);
        assert!((e.value() as usize) < 170);
    }
}

// C14: frame of store_into_str_bytes on Short
#[kani::proof]
#[kani::unwind(20)]
fn p_store_str_frame_short() {
    let raw: [u8; 15] = kani::any();
    let h = InnerShort::try_from(&raw).unwrap();
    let mut buf: [u8; 40] = kani::any();
    let before = buf;
    let n: usize = kani::any();
    kani::assume(n <= 40);
    let with: bool = kani::any();
    let need = if with { 32 } else { 30 };
    let r = h.store_into_str_bytes(&mut buf[..n], if with { HexStringPrefix::WithVersion } else { HexStringPrefix::Empty });
    if n < need {
        assert!(r.is_err());
        let i: usize = kani::any(); kani::assume(i < 40);
        assert!(buf[i] == before[i]);
    } else {
        assert!(r == Ok(need));
        let i: usize = kani::any(); kani::assume(i < 40);
        if i >= need { assert!(buf[i] == before[i]); }
        else { assert!(buf[i].is_ascii_digit() || (b'A'..=b'F').contains(&buf[i]) || (with && i < 2)); }
    }
}

// C13 probe
#[kani::proof]
#[kani::unwind(40)]
fn p_compare_with_short() {
    let l: [u8; 33] = kani::any();
    let r: [u8; 33] = kani::any();
    let ln: usize = kani::any(); let rn: usize = kani::any();
    kani::assume(ln <= 33 && rn <= 33);
    let mut i = 0; while i < 33 { kani::assume(l[i] < 128 && r[i] < 128); i += 1; }
    let ls = core::str::from_utf8(&l[..ln]).unwrap();
    let rs = core::str::from_utf8(&r[..rn]).unwrap();
    let got = crate::compare_with::<crate::hashes::Short>(ls, rs);
    let pl = <crate::hashes::Short as FuzzyHashType>::from_str_bytes(&l[..ln], None);
    let pr = <crate::hashes::Short as FuzzyHashType>::from_str_bytes(&r[..rn], None);
    match (pl, pr) {
        (Ok(a), Ok(b)) => assert!(got == Ok(a.compare(&b))),
        (Err(e), _) => assert!(got == Err(crate::errors::ParseErrorEither(crate::errors::ParseErrorSide::Left, e))),
        (Ok(_), Err(e)) => assert!(got == Err(crate::errors::ParseErrorEither(crate::errors::ParseErrorSide::Right, e))),
    }
}

#[cfg(feature = "simd-per-arch")]
#[kani::proof]
#[kani::unwind(34)]
#[kani::stub(core::arch::x86_64::_mm_packs_epi16, agg::verif_stubs::model_mm_packs_epi16)]
#[kani::stub(core::arch::x86_64::_mm_shuffle_epi8, agg::verif_stubs::model_mm_shuffle_epi8)]
#[kani::stub(core::arch::x86_64::_mm256_shuffle_epi8, agg::verif_stubs::model_mm256_shuffle_epi8)]
#[kani::stub(std_detect::detect::cache::test, agg::verif_stubs::model_detect_test)]
fn agg_dispatch() {
    agg::verif_stubs::set_detect_mask(kani::any());
    let b: [u32; 48] = kani::any();
    let q1: u32 = kani::any();
    let q2: u32 = kani::any();
    let q3: u32 = kani::any();
    kani::assume(q1 <= q2 && q2 <= q3);
    let mut o1 = [0u8; 12];
    let mut o2 = [0u8; 12];
    agg::verif_agg48(0, &mut o1, &b, q1, q2, q3);
    agg::aggregate_48(&mut o2, &b, q1, q2, q3);
    assert!(o1 == o2);
}
