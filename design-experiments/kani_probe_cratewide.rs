//! in-crate kani harnesses (experiment)
use crate::compare::dist_body;

fn ref_dibit(x: u8, y: u8) -> u32 {
    let d = if x > y { x - y } else { y - x } as u32;
    if d == 3 { 6 } else { d }
}

fn ref_sub64(x: u64, y: u64) -> u32 {
    let mut s = 0u32;
    let mut i = 0;
    while i < 32 {
        s += ref_dibit(((x >> (2 * i)) & 3) as u8, ((y >> (2 * i)) & 3) as u8);
        i += 1;
    }
    s
}

#[kani::proof]
#[kani::unwind(33)]
fn sub_distance_64_matches_ref() {
    let x: u64 = kani::any();
    let y: u64 = kani::any();
    let a = [x.to_ne_bytes(), [0u8; 8], [0u8; 8], [0u8; 8]];
    let _ = a;
    assert_eq!(dist_body::verif_sub64(x, y), ref_sub64(x, y));
}

#[cfg(feature = "simd-per-arch")]
#[kani::proof]
fn sse2_smoke() {
    let a: [u8; 32] = kani::any();
    let b: [u8; 32] = kani::any();
    let d = dist_body::verif_sse2_32(&a, &b);
    assert!(d <= 768);
}
#[cfg(feature = "simd-per-arch")]
#[kani::proof]
fn avx2_smoke() {
    let a: [u8; 32] = kani::any();
    let b: [u8; 32] = kani::any();
    let d = dist_body::verif_avx2_32(&a, &b);
    assert!(d <= 768);
}

use crate::generate::bucket_aggregation as agg;
#[cfg(feature = "simd-per-arch")]
fn agg_smoke(which: u8) {
    let b: [u32; 48] = kani::any();
    let q1: u32 = kani::any();
    let q2: u32 = kani::any();
    let q3: u32 = kani::any();
    kani::assume(q1 <= q2 && q2 <= q3);
    let mut o1 = [0u8; 12];
    let mut o2 = [0u8; 12];
    agg::verif_agg48(0, &mut o1, &b, q1, q2, q3);
    agg::verif_agg48(which, &mut o2, &b, q1, q2, q3);
    assert!(o1 == o2);
}
#[cfg(feature = "simd-per-arch")]
#[kani::proof]
#[kani::unwind(14)]
fn agg_sse2() { agg_smoke(1) }
#[cfg(feature = "simd-per-arch")]
#[kani::proof]
#[kani::unwind(14)]
fn agg_ssse3() { agg_smoke(2) }
#[cfg(feature = "simd-per-arch")]
#[kani::proof]
#[kani::unwind(14)]
fn agg_avx2() { agg_smoke(3) }

pub(crate) fn ref_hexval(c: u8) -> Option<u8> {
    match c {
        b'0'..=b'9' => Some(c - b'0'),
        b'a'..=b'f' => Some(c - b'a' + 10),
        b'A'..=b'F' => Some(c - b'A' + 10),
        _ => None,
    }
}
pub(crate) fn ref_decode_rev_1(src: &[u8]) -> Option<u8> {
    if src.len() != 2 { return None; }
    match (ref_hexval(src[0]), ref_hexval(src[1])) {
        (Some(lo), Some(hi)) => Some(hi << 4 | lo),
        _ => None,
    }
}
pub(crate) fn ref_all_hex(src: &[u8], n: usize) -> bool {
    if src.len() != n * 2 { return false; }
    let mut i = 0;
    while i < src.len() {
        if ref_hexval(src[i]).is_none() { return false; }
        i += 1;
    }
    true
}

#[kani::proof_for_contract(crate::parse::hex_str::decode_rev_1)]
fn pfc_decode_rev_1() {
    let buf: [u8; 3] = kani::any();
    let n: usize = kani::any();
    kani::assume(n <= 3);
    let _ = crate::parse::hex_str::decode_rev_1(&buf[..n]);
}

#[kani::proof_for_contract(crate::parse::hex_str::decode_rev_array)]
#[kani::stub_verified(crate::parse::hex_str::decode_rev_1)]
#[kani::unwind(8)]
fn pfc_decode_rev_array_3() {
    let buf: [u8; 7] = kani::any();
    let n: usize = kani::any();
    kani::assume(n <= 7);
    let mut dst = [0u8; 3];
    let _ = crate::parse::hex_str::decode_rev_array::<3>(&mut dst, &buf[..n]);
}

#[kani::proof_for_contract(crate::buckets::FuzzyHashBucketsData::increment)]
fn pfc_increment() {
    let mut b = crate::buckets::FuzzyHashBucketsData::<128> { buckets: kani::any() };
    b.increment(kani::any());
}

use crate::hash::HexStringPrefix;
use crate::FuzzyHashType;
use crate::errors::ParseError;

type InnerNormal = crate::hash::inner::FuzzyHash<1, 32, 128, 35, 72>;
type InnerShort = crate::hash::inner::FuzzyHash<1, 12, 48, 15, 32>;

fn ref_parse<const NB: usize, const LEN: usize>(s: &[u8], mode: Option<HexStringPrefix>) -> Result<[u8; NB], ParseError> {
    // LEN = with prefix
    let with_prefix = match mode {
        None => {
            if s.len() == LEN - 2 { false } else if s.len() == LEN { true } else { return Err(ParseError::InvalidStringLength); }
        }
        Some(HexStringPrefix::Empty) => { if s.len() != LEN - 2 { return Err(ParseError::InvalidStringLength); } false }
        Some(HexStringPrefix::WithVersion) => { if s.len() != LEN { return Err(ParseError::InvalidStringLength); } true }
    };
    let off = if with_prefix { 2 } else { 0 };
    if with_prefix && !(s[0] == b'T' && s[1] == b'1') { return Err(ParseError::InvalidPrefix); }
    let mut out = [0u8; NB];
    let hdr = NB - (LEN - 2) / 2 + 0; // placeholder
    let _ = hdr;
    let mut i = 0;
    while i < NB {
        let a = ref_hexval(s[off + 2 * i]);
        let b = ref_hexval(s[off + 2 * i + 1]);
        match (a, b) {
            (Some(a), Some(b)) => { out[i] = a << 4 | b; }
            _ => return Err(ParseError::InvalidCharacter),
        }
        i += 1;
    }
    Ok(out)
}

#[kani::proof]
#[kani::unwind(40)]
fn parse_short_total() {
    let buf: [u8; 36] = kani::any();
    let n: usize = kani::any();
    kani::assume(n <= 36);
    let mode: u8 = kani::any();
    let mode = match mode { 0 => None, 1 => Some(HexStringPrefix::Empty), _ => Some(HexStringPrefix::WithVersion) };
    let r = InnerShort::from_str_bytes(&buf[..n], mode);
    let e = ref_parse::<15, 32>(&buf[..n], mode);
    assert!(r.is_ok() == e.is_ok());
    if let Ok(h) = r {
        let mut out = [0u8; 15];
        h.store_into_bytes(&mut out).unwrap();
        let e = e.unwrap();
        // header bytes nibble swapped
        assert!(out[0] == e[0].rotate_left(4));
        assert!(out[1] == e[1].rotate_left(4));
        assert!(out[2] == e[2].rotate_left(4));
        let mut i = 3;
        while i < 15 { assert!(out[i] == e[i]); i += 1; }
    }
}


// ---- alloc experiment
#[allow(unsafe_code)]
pub(crate) unsafe fn no_alloc(_l: core::alloc::Layout) -> *mut u8 {
    panic!("heap allocation reached");
}
#[kani::proof]
#[kani::stub(alloc::alloc::alloc, no_alloc)]
#[kani::stub(alloc::alloc::alloc_zeroed, no_alloc)]
fn alloc_detected() {
    let n: usize = kani::any();
    kani::assume(n > 0 && n < 4);
    let v = alloc::vec![1u8; n];
    assert!(v.len() == n);
}
#[kani::proof]
#[kani::stub(alloc::alloc::alloc, no_alloc)]
#[kani::stub(alloc::alloc::alloc_zeroed, no_alloc)]
fn alloc_detected_z() {
    let n: usize = kani::any();
    kani::assume(n > 0 && n < 4);
    let v = alloc::vec![0u8; n];
    assert!(v.len() == n);
}
#[kani::proof]
#[kani::stub(alloc::alloc::alloc, no_alloc)]
#[kani::stub(alloc::alloc::alloc_zeroed, no_alloc)]
fn alloc_free_compare() {
    let a: u8 = kani::any();
    let b: u8 = kani::any();
    let d = crate::compare::dist_qratios::distance(a, b);
    assert!(d <= 168);
}
