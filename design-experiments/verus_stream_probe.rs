use vstd::prelude::*;
use std::io::Read;
verus! {

#[verifier::external_type_specification]
#[verifier::external_body]
pub struct ExIoError(std::io::Error);

#[verifier::external_trait_specification]
#[verifier::external_trait_extension(ReadSpec via ReadSpecImpl)]
pub trait ExRead {
    type ExternalTraitSpecificationFor: std::io::Read;
    spec fn delivered(&self) -> Seq<u8>;
    fn read(&mut self, buf: &mut [u8]) -> (r: std::io::Result<usize>)
        ensures
            final(buf)@.len() == old(buf)@.len(),
            old(self).delivered().is_prefix_of(final(self).delivered()),
            match r {
                Ok(n) => n <= old(buf)@.len() && final(self).delivered() == old(self).delivered() + final(buf)@.take(n as int),
                Err(e) => final(self).delivered() == old(self).delivered(),
            };
}

pub uninterp spec fn is_interrupted(e: std::io::Error) -> bool;

pub enum GeneratorError { TooLargeInput, TooSmallInput, BucketsAreHalfEmpty, BucketsAreThreeQuarterEmpty }

pub enum GeneratorOrIOError {
    GeneratorError(GeneratorError),
    IOError(std::io::Error),
}
impl From<GeneratorError> for GeneratorOrIOError {
    fn from(value: GeneratorError) -> (r: Self)
        ensures r == GeneratorOrIOError::GeneratorError(value)
    {
        GeneratorOrIOError::GeneratorError(value)
    }
}
impl From<std::io::Error> for GeneratorOrIOError {
    fn from(value: std::io::Error) -> (r: Self)
        ensures r == GeneratorOrIOError::IOError(value)
    {
        GeneratorOrIOError::IOError(value)
    }
}

impl vstd::std_specs::convert::FromSpecImpl<GeneratorError> for GeneratorOrIOError {
    open spec fn obeys_from_spec() -> bool { true }
    open spec fn from_spec(v: GeneratorError) -> Self { GeneratorOrIOError::GeneratorError(v) }
}
impl vstd::std_specs::convert::FromSpecImpl<std::io::Error> for GeneratorOrIOError {
    open spec fn obeys_from_spec() -> bool { true }
    open spec fn from_spec(v: std::io::Error) -> Self { GeneratorOrIOError::IOError(v) }
}

pub trait GeneratorType {
    type Output;
    spec fn fed(&self) -> Seq<u8>;
    spec fn result_of(d: Seq<u8>) -> Result<Self::Output, GeneratorError>;
    fn update(&mut self, data: &[u8])
        ensures final(self).fed() == old(self).fed() + data@;
    fn finalize(&self) -> (r: Result<Self::Output, GeneratorError>)
        ensures r == Self::result_of(self.fed());
}

const BUFFER_SIZE: usize = 1048576;

pub open spec fn suffix_from(all: Seq<u8>, start: Seq<u8>) -> Seq<u8> {
    all.skip(start.len() as int)
}

#[verifier::exec_allows_no_decreases_clause]
fn hash_stream_common<R: Read, G: GeneratorType>(
    generator: &mut G,
    reader: &mut R,
) -> (res: Result<G::Output, GeneratorOrIOError>)
    ensures
        // the reader history only grows, and everything delivered was fed, in order
        (*old(reader)).delivered().is_prefix_of((*final(reader)).delivered()),
        (*final(generator)).fed() == (*old(generator)).fed() + suffix_from((*final(reader)).delivered(), (*old(reader)).delivered()),
        match res {
            Ok(h) => Ok::<G::Output, GeneratorError>(h) == G::result_of((*final(generator)).fed()),
            Err(GeneratorOrIOError::GeneratorError(e)) => Err::<G::Output, GeneratorError>(e) == G::result_of((*final(generator)).fed()),
            Err(GeneratorOrIOError::IOError(e)) => !is_interrupted(e),
        }
{
    let ghost f0 = generator.fed();
    let ghost d0 = (*reader).delivered();
    let mut buffer = vec![0u8; BUFFER_SIZE];
    proof {
        assert(suffix_from(d0, d0) =~= Seq::<u8>::empty());
        assert(f0 + Seq::<u8>::empty() =~= f0);
    }
    loop
        invariant
            buffer@.len() == BUFFER_SIZE,
            d0 == (*old(reader)).delivered(),
            f0 == (*old(generator)).fed(),
            d0.is_prefix_of((*reader).delivered()),
            generator.fed() == f0 + suffix_from((*reader).delivered(), d0),
    {
        let ghost dpre = (*reader).delivered();
        let len = match reader.read(&mut buffer) { Ok(__v) => __v, Err(__e) => return Err(From::from(__e)) };
        if len == 0 {
            proof {
                assert(buffer@.take(0) =~= Seq::<u8>::empty());
                assert(dpre + Seq::<u8>::empty() =~= dpre);
                assert((*reader).delivered() == dpre);
            }
            break;
        }
        generator.update(&buffer[0..len]);
        proof {
            let chunk = buffer@.take(len as int);
            assert(buffer@.subrange(0, len as int) =~= chunk);
            assert((*reader).delivered() == dpre + chunk);
            assert(d0.is_prefix_of(dpre + chunk));
            assert(suffix_from(dpre + chunk, d0) =~= suffix_from(dpre, d0) + chunk);
            assert((f0 + suffix_from(dpre, d0)) + chunk =~= f0 + (suffix_from(dpre, d0) + chunk));
        }
    }
    Ok(match generator.finalize() { Ok(__v) => __v, Err(__e) => return Err(From::from(__e)) })
}

}
fn main(){}
