//! C16 probe: serde visitors/deserialize against a most-general mock
#![cfg(feature = "serde")]
use serde::de::{self, Deserializer, Visitor};
use serde::Deserialize;
use crate::FuzzyHashType;

#[derive(Debug)]
pub(crate) struct MockErr;
impl core::fmt::Display for MockErr {
    fn fmt(&self, _f: &mut core::fmt::Formatter<'_>) -> core::fmt::Result { Ok(()) }
}
impl std::error::Error for MockErr {}
impl de::Error for MockErr {
    fn custom<T: core::fmt::Display>(_msg: T) -> Self { MockErr }
}

pub(crate) struct MockDe<'a> { human: bool, event: u8, bytes: &'a [u8], s: &'a str, n: u64 }

impl<'de, 'a> Deserializer<'de> for MockDe<'a> {
    type Error = MockErr;
    fn is_human_readable(&self) -> bool { self.human }
    fn deserialize_any<V: Visitor<'de>>(self, v: V) -> Result<V::Value, MockErr> {
        match self.event {
            0 => v.visit_bytes(self.bytes),
            1 => v.visit_str(self.s),
            2 => v.visit_u64(self.n),
            3 => v.visit_unit(),
            4 => v.visit_bool(self.n & 1 == 1),
            5 => v.visit_i64(self.n as i64),
            6 => v.visit_none(),
            _ => v.visit_f64(self.n as f64),
        }
    }
    serde::forward_to_deserialize_any! {
        bool i8 i16 i32 i64 i128 u8 u16 u32 u64 u128 f32 f64 char str string
        bytes byte_buf option unit unit_struct newtype_struct seq tuple
        tuple_struct map struct enum identifier ignored_any
    }
}

type H = crate::hashes::Short;

#[kani::proof]
#[kani::unwind(40)]
fn serde_de_bytes_event() {
    let buf: [u8; 17] = kani::any();
    let n: usize = kani::any();
    kani::assume(n <= 17);
    let d = MockDe { human: false, event: 0, bytes: &buf[..n], s: "", n: 0 };
    let r = H::deserialize(d);
    let e = H::try_from(&buf[..n]);
    assert!(r.is_ok() == e.is_ok());
    if let (Ok(a), Ok(b)) = (r, e) { assert!(a == b); }
}

#[kani::proof]
#[kani::unwind(40)]
fn serde_de_other_events() {
    let ev: u8 = kani::any();
    kani::assume(ev >= 2);
    let d = MockDe { human: kani::any(), event: ev, bytes: &[], s: "", n: kani::any() };
    let r = H::deserialize(d);
    assert!(r.is_err());
}
