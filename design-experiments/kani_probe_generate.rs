// ---- finalize experiment
use super::inner::Generator as InnerGen;
use crate::FuzzyHashType;
use crate::generate::GeneratorOptions;
use crate::GeneratorType;
use crate::errors::GeneratorError;

/// Assumed contract for `<[u32]>::select_nth_unstable` (documented behaviour).
#[allow(unsafe_code)]
pub(crate) fn select_nth_model<T: Ord>(s0: &mut [T], index: usize) -> (&mut [T], &mut T, &mut [T]) {
    assert!(core::mem::size_of::<T>() == 4);
    assert!(index < s0.len());
    let s: &mut [u32] = unsafe { core::slice::from_raw_parts_mut(s0.as_mut_ptr() as *mut u32, s0.len()) };
    let n = s.len();
    // ghost: order statistic witness of the old content
    let mut lt_old = 0usize; let mut le_old = 0usize;
    let pivot: u32 = kani::any();
    let mut i = 0;
    while i < n { if s[i] < pivot { lt_old += 1; } if s[i] <= pivot { le_old += 1; } i += 1; }
    // pivot is the index-th order statistic of the old content
    kani::assume(lt_old <= index && index < le_old);
    // havoc the slice into any arrangement consistent with the contract
    let mut i = 0;
    while i < n {
        let v: u32 = kani::any();
        if i < index { kani::assume(v <= pivot); } else if i == index { kani::assume(v == pivot); } else { kani::assume(v >= pivot); }
        s[i] = v;
        i += 1;
    }
    let (l, r) = s0.split_at_mut(index);
    let (p, r) = r.split_first_mut().unwrap();
    (l, p, r)
}

fn ref_order_stat(b: &[u32], k: usize, v: u32) -> bool {
    let mut lt = 0usize; let mut le = 0usize;
    let mut i = 0;
    while i < b.len() { if b[i] < v { lt += 1; } if b[i] <= v { le += 1; } i += 1; }
    lt <= k && k < le
}

#[kani::proof]
#[kani::unwind(50)]
#[kani::stub(<[u32]>::select_nth_unstable, select_nth_model)]
fn finalize_short_smoke() {
    let mut g: InnerGen<1, 12, 48, 15, 32> = Default::default();
    g.buckets.buckets = kani::any();
    g.len = kani::any();
    g.tail_len = kani::any();
    kani::assume(g.tail_len <= 4);
    kani::assume(g.tail_len == 4 || g.len == 0);
    let mut opts = GeneratorOptions::new();
    opts.pure_integer_qratio_computation(kani::any());
    opts.allow_small_size_files(kani::any());
    opts.allow_statistically_weak_buckets_half(kani::any());
    opts.allow_statistically_weak_buckets_quarter(kani::any());
    let r = g.finalize_with_options(&opts);
    if let Ok(h) = r {
        assert!(h.length().value() < 170);
    }
}
