// ---- finalize experiment
use super::inner::Generator as InnerGen;
use crate::FuzzyHashType;
use crate::generate::GeneratorOptions;
use crate::GeneratorType;
use crate::errors::GeneratorError;

/// Assumed contract for `<[u32]>::select_nth_unstable` (documented behaviour).
#[allow(unsafe_code)]
pub(crate) fn select_nth_model<T: Ord>(s0: &mut [T], index: usize) -> (&mut [T], &mut T, &mut [T]) {
    assert!(core::mem::size_of::<T>() == 4);
    assert!(index < s0.len());
    let s: &mut [u32] = unsafe { core::slice::from_raw_parts_mut(s0.as_mut_ptr() as *mut u32, s0.len()) };
    let n = s.len();
    // ghost: order statistic witness of the old content
    let mut lt_old = 0usize; let mut le_old = 0usize;
    let pivot: u32 = kani::any();
    let mut i = 0;
    while i < n { if s[i] < pivot { lt_old += 1; } if s[i] <= pivot { le_old += 1; } i += 1; }
    // pivot is the index-th order statistic of the old content
    kani::assume(lt_old <= index && index < le_old);
    // havoc the slice into any arrangement consistent with the contract
    let mut i = 0;
    while i < n {
        let v: u32 = kani::any();
        if i < index { kani::assume(v <= pivot); } else if i == index { kani::assume(v == pivot); } else { kani::assume(v >= pivot); }
        s[i] = v;
        i += 1;
    }
    let (l, r) = s0.split_at_mut(index);
    let (p, r) = r.split_first_mut().unwrap();
    (l, p, r)
}

fn ref_order_stat(b: &[u32], k: usize, v: u32) -> bool {
    let mut lt = 0usize; let mut le = 0usize;
    let mut i = 0;
    while i < b.len() { if b[i] < v { lt += 1; } if b[i] <= v { le += 1; } i += 1; }
    lt <= k && k < le
}

#[kani::proof]
#[kani::unwind(50)]
#[kani::stub(<[u32]>::select_nth_unstable, select_nth_model)]
fn finalize_short_smoke() {
    let mut g: InnerGen<1, 12, 48, 15, 32> = Default::default();
    g.buckets.buckets = kani::any();
    g.len = kani::any();
    g.tail_len = kani::any();
    kani::assume(g.tail_len <= 4);
    kani::assume(g.tail_len == 4 || g.len == 0);
    let mut opts = GeneratorOptions::new();
    opts.pure_integer_qratio_computation(kani::any());
    opts.allow_small_size_files(kani::any());
    opts.allow_statistically_weak_buckets_half(kani::any());
    opts.allow_statistically_weak_buckets_quarter(kani::any());
    let r = g.finalize_with_options(&opts);
    if let Ok(h) = r {
        assert!(h.length().value() < 170);
    }
}

// ---- bounded differential twin of update (probe)
use crate::buckets::constrained::{FuzzyHashBucketMapper, FuzzyHashBucketsInfo};
use crate::hash::checksum::inner::InnerChecksum;
type GN = InnerGen<1, 32, 128, 35, 72>;

fn ref_step(g: &mut GN, b4: u8) {
    if g.tail_len < 4 {
        g.tail[g.tail_len as usize] = b4;
        g.tail_len += 1;
        return;
    }
    if g.len >= 0xffff_fffc { return; }
    g.len += 1;
    let (b0, b1, b2, b3) = (g.tail[0], g.tail[1], g.tail[2], g.tail[3]);
    g.checksum.update(b4, b3);
    let m = |s: u8, a: u8, b: u8, c: u8| FuzzyHashBucketsInfo::<128>::b_mapping(s, a, b, c);
    for idx in [m(2, b4, b3, b2), m(3, b4, b3, b1), m(5, b4, b2, b1), m(7, b4, b2, b0), m(11, b4, b3, b0), m(13, b4, b1, b0)] {
        g.buckets.buckets[idx as usize] = g.buckets.buckets[idx as usize].wrapping_add(1);
    }
    g.tail = [b1, b2, b3, b4];
}

#[kani::proof]
#[kani::unwind(8)]
fn update_twin_normal() {
    let mut g: GN = Default::default();
    g.buckets.buckets = kani::any();
    g.len = kani::any();
    g.tail = kani::any();
    g.tail_len = kani::any();
    kani::assume(g.tail_len <= 4 && (g.tail_len == 4 || g.len == 0) && g.len <= 0xffff_fffc);
    let mut r = g.clone();
    let data: [u8; 6] = kani::any();
    let n: usize = kani::any();
    kani::assume(n <= 6);
    let k: usize = kani::any();
    kani::assume(k <= n);
    g.update(&data[..k]);
    g.update(&data[k..n]);
    let mut i = 0;
    while i < n { ref_step(&mut r, data[i]); i += 1; }
    assert!(g.len == r.len && g.tail_len == r.tail_len);
    assert!(g.checksum == r.checksum);
    let j: usize = kani::any(); kani::assume(j < 256);
    assert!(g.buckets.buckets[j] == r.buckets.buckets[j]);
    let t: usize = kani::any(); kani::assume(t < 4);
    if (t as u32) < g.tail_len { assert!(g.tail[t] == r.tail[t]); }
}

// ---- full functional finalize obligation (probe), generic over variant via macro
fn ref_count(b: &[u32], v: u32) -> (usize, usize) {
    let mut lt = 0usize; let mut le = 0usize; let mut i = 0;
    while i < b.len() { if b[i] < v { lt += 1; } if b[i] <= v { le += 1; } i += 1; }
    (lt, le)
}
fn is_order_stat(b: &[u32], k: usize, v: u32) -> bool { let (lt, le) = ref_count(b, v); lt <= k && k < le }

macro_rules! finalize_full {
    ($name:ident, $ck:literal, $body:literal, $n:literal, $bytes:literal, $str:literal, $min:literal, $minc:literal, $minnz:literal, $unw:literal) => {
        #[kani::proof]
        #[kani::unwind($unw)]
        #[kani::stub(<[u32]>::select_nth_unstable, select_nth_model)]
        fn $name() {
            let mut g: InnerGen<$ck, $body, $n, $bytes, $str> = Default::default();
            g.buckets.buckets = kani::any();
            g.len = kani::any();
            g.tail_len = kani::any();
            kani::assume(g.tail_len <= 4 && (g.tail_len == 4 || g.len == 0));
            let int_mode: bool = kani::any();
            let small: bool = kani::any();
            let half: bool = kani::any();
            let quarter: bool = kani::any();
            let conservative: bool = kani::any();
            let mut opts = GeneratorOptions::new();
            opts.pure_integer_qratio_computation(int_mode);
            opts.allow_small_size_files(small);
            opts.allow_statistically_weak_buckets_half(half);
            opts.allow_statistically_weak_buckets_quarter(quarter);
            if conservative { opts.length_processing_mode(crate::length::DataLengthProcessingMode::Conservative); }
            let r = g.finalize_with_options(&opts);
            // ---- reference
            let n64 = g.len as u64 + g.tail_len as u64;
            let too_large = n64 > 4224281216;
            let too_small = n64 < $min || (conservative && n64 < $minc);
            if too_large { assert!(r == Err(GeneratorError::TooLargeInput)); return; }
            if too_small && !small { assert!(r == Err(GeneratorError::TooSmallInput)); return; }
            let b: &[u32] = &g.buckets.buckets[..$n];
            // quartiles chosen by the reference as order statistics: witnesses
            let (q1, q2, q3): (u32, u32, u32) = (kani::any(), kani::any(), kani::any());
            kani::assume(is_order_stat(b, $n / 4 - 1, q1));
            kani::assume(is_order_stat(b, $n / 2 - 1, q2));
            kani::assume(is_order_stat(b, $n - $n / 4 - 1, q3));
            let mut nz = 0usize; let mut i = 0; while i < $n { if b[i] != 0 { nz += 1; } i += 1; }
            if q3 == 0 && !quarter { assert!(r == Err(GeneratorError::BucketsAreThreeQuarterEmpty)); return; }
            if nz < $minnz && !(half || quarter) { assert!(r == Err(GeneratorError::BucketsAreHalfEmpty)); return; }
            let (q1, q2, q3) = if q3 == 0 { (1, 1, 1) } else { (q1, q2, q3) };
            let h = r.unwrap();
            let (e1, e2) = if int_mode {
                ((((q1 as u64 * 100) / q3 as u64) % 16) as u8, (((q2 as u64 * 100) / q3 as u64) % 16) as u8)
            } else {
                ((((q1.wrapping_mul(100) as f32) / q3 as f32) as u32 % 16) as u8, (((q2.wrapping_mul(100) as f32) / q3 as f32) as u32 % 16) as u8)
            };
            assert!(h.qratios().q1ratio() == e1 && h.qratios().q2ratio() == e2);
            assert!(h.checksum().data() == g.checksum.data());
            let k: usize = kani::any(); kani::assume(k < $n);
            let d = if b[k] > q3 { 3 } else if b[k] > q2 { 2 } else if b[k] > q1 { 1 } else { 0 };
            use crate::hash::body::FuzzyHashBody;
            assert!(h.body().quartile(k) == d);
        }
    };
}
finalize_full!(finalize_full_short, 1, 12, 48, 15, 32, 10, 10, 18, 50);
finalize_full!(finalize_full_normal, 1, 32, 128, 35, 72, 50, 128, 65, 130);

// ---- (d1) recording model of select_nth_unstable + finalize given pivots
static mut REC_CALLS: usize = 0;
static mut REC_BASE: usize = 0;
static mut REC: [(usize, usize, usize); 3] = [(0, 0, 0); 3];
static mut REC_PIV: [u32; 3] = [0; 3];

#[allow(unsafe_code)]
pub(crate) fn select_nth_recording<T: Ord>(s0: &mut [T], index: usize) -> (&mut [T], &mut T, &mut [T]) {
    assert!(core::mem::size_of::<T>() == 4);
    assert!(index < s0.len());
    unsafe {
        let c = REC_CALLS;
        assert!(c < 3);
        let p = s0.as_ptr() as usize;
        if c == 0 { REC_BASE = p; }
        REC[c] = ((p - REC_BASE) / 4, s0.len(), index);
        REC_CALLS = c + 1;
        let s: &mut [u32] = core::slice::from_raw_parts_mut(s0.as_mut_ptr() as *mut u32, s0.len());
        // the pivot is pre-chosen by the harness (so the harness can name it)
        s[index] = REC_PIV[c];
    }
    let (l, r) = s0.split_at_mut(index);
    let (p, r) = r.split_first_mut().unwrap();
    (l, p, r)
}

macro_rules! finalize_given {
    ($name:ident, $ck:literal, $body:literal, $n:literal, $bytes:literal, $str:literal, $min:literal, $minc:literal, $minnz:literal, $unw:literal) => {
        #[kani::proof]
        #[kani::unwind($unw)]
        #[kani::stub(<[u32]>::select_nth_unstable, select_nth_recording)]
        #[allow(unsafe_code)]
        fn $name() {
            let mut g: InnerGen<$ck, $body, $n, $bytes, $str> = Default::default();
            g.buckets.buckets = kani::any();
            g.len = kani::any();
            g.tail_len = kani::any();
            kani::assume(g.tail_len <= 4 && (g.tail_len == 4 || g.len == 0));
            let (int_mode, small, half, quarter, conservative): (bool, bool, bool, bool, bool) = kani::any();
            let mut opts = GeneratorOptions::new();
            opts.pure_integer_qratio_computation(int_mode);
            opts.allow_small_size_files(small);
            opts.allow_statistically_weak_buckets_half(half);
            opts.allow_statistically_weak_buckets_quarter(quarter);
            if conservative { opts.length_processing_mode(crate::length::DataLengthProcessingMode::Conservative); }
            // pivots: call #0 -> q2, #1 -> q1, #2 -> q3 ; ordered (lemma d2)
            let (q1, q2, q3): (u32, u32, u32) = kani::any();
            kani::assume(q1 <= q2 && q2 <= q3);
            unsafe { REC_CALLS = 0; REC_PIV = [q2, q1, q3]; }
            let before = g.clone();
            let r = g.finalize_with_options(&opts);
            let _ = &before;
            let n64 = g.len as u64 + g.tail_len as u64;
            let too_large = n64 > 4224281216;
            let too_small = n64 < $min || (conservative && n64 < $minc);
            if too_large { assert!(r == Err(GeneratorError::TooLargeInput)); return; }
            if too_small && !small { assert!(r == Err(GeneratorError::TooSmallInput)); return; }
            // call pattern
            unsafe {
                assert!(REC_CALLS == 3);
                assert!(REC[0] == (0, $n, $n / 2 - 1));
                assert!(REC[1] == (0, $n / 2 - 1, $n / 4 - 1));
                assert!(REC[2] == ($n / 2, $n / 2, $n / 4 - 1));
            }
            let b: &[u32] = &g.buckets.buckets[..$n];
            let mut nz = 0usize; let mut i = 0; while i < $n { if b[i] != 0 { nz += 1; } i += 1; }
            if q3 == 0 && !quarter { assert!(r == Err(GeneratorError::BucketsAreThreeQuarterEmpty)); return; }
            if nz < $minnz && !(half || quarter) { assert!(r == Err(GeneratorError::BucketsAreHalfEmpty)); return; }
            let (q1, q2, q3) = if q3 == 0 { (1, 1, 1) } else { (q1, q2, q3) };
            assert!(r.is_ok());
            let h = r.unwrap();
            let (e1, e2) = if int_mode {
                ((((q1 as u64 * 100) / q3 as u64) % 16) as u8, (((q2 as u64 * 100) / q3 as u64) % 16) as u8)
            } else {
                ((((q1.wrapping_mul(100) as f32) / q3 as f32) as u32 % 16) as u8, (((q2.wrapping_mul(100) as f32) / q3 as f32) as u32 % 16) as u8)
            };
            assert!(h.qratios().q1ratio() == e1 && h.qratios().q2ratio() == e2);
            assert!(h.checksum().data() == g.checksum.data());
            let k: usize = kani::any(); kani::assume(k < $n);
            let d = if b[k] > q3 { 3 } else if b[k] > q2 { 2 } else if b[k] > q1 { 1 } else { 0 };
            use crate::hash::body::FuzzyHashBody;
            assert!(h.body().quartile(k) == d);
        }
    };
}
finalize_given!(finalize_given_short, 1, 12, 48, 15, 32, 10, 10, 18, 50);
finalize_given!(finalize_given_normal, 1, 32, 128, 35, 72, 50, 128, 65, 130);

// ---- (d1) split by aspect, Short only
macro_rules! finalize_aspect {
    ($name:ident, $aspect:literal, $mode:expr) => {
        #[kani::proof]
        #[kani::unwind(50)]
        #[kani::stub(<[u32]>::select_nth_unstable, select_nth_recording)]
        #[allow(unsafe_code)]
        fn $name() {
            let mut g: InnerGen<1, 12, 48, 15, 32> = Default::default();
            g.buckets.buckets = kani::any();
            g.len = kani::any();
            g.tail_len = kani::any();
            kani::assume(g.tail_len <= 4 && (g.tail_len == 4 || g.len == 0));
            let (small, half, quarter, conservative): (bool, bool, bool, bool) = kani::any();
            let int_mode: bool = match $mode { 0 => true, 1 => false, _ => kani::any() };
            let mut opts = GeneratorOptions::new();
            opts.pure_integer_qratio_computation(int_mode);
            opts.allow_small_size_files(small);
            opts.allow_statistically_weak_buckets_half(half);
            opts.allow_statistically_weak_buckets_quarter(quarter);
            if conservative { opts.length_processing_mode(crate::length::DataLengthProcessingMode::Conservative); }
            let (q1, q2, q3): (u32, u32, u32) = kani::any();
            kani::assume(q1 <= q2 && q2 <= q3);
            unsafe { REC_CALLS = 0; REC_PIV = [q2, q1, q3]; }
            let r = g.finalize_with_options(&opts);
            let n64 = g.len as u64 + g.tail_len as u64;
            let too_large = n64 > 4224281216;
            let too_small = n64 < 10;
            let b: &[u32] = &g.buckets.buckets[..48];
            let mut nz = 0usize; let mut i = 0; while i < 48 { if b[i] != 0 { nz += 1; } i += 1; }
            let expect_err = if too_large { Some(GeneratorError::TooLargeInput) }
                else if too_small && !small { Some(GeneratorError::TooSmallInput) }
                else if q3 == 0 && !quarter { Some(GeneratorError::BucketsAreThreeQuarterEmpty) }
                else if nz < 18 && !(half || quarter) { Some(GeneratorError::BucketsAreHalfEmpty) }
                else { None };
            if $aspect == 0 {
                match expect_err { Some(e) => assert!(r == Err(e)), None => assert!(r.is_ok()) }
                unsafe { if !too_large && !(too_small && !small) {
                    assert!(REC_CALLS == 3 && REC[0] == (0, 48, 23) && REC[1] == (0, 23, 11) && REC[2] == (24, 24, 11));
                } }
                return;
            }
            kani::assume(expect_err.is_none());
            kani::assume(r.is_ok());
            let h = r.unwrap();
            let (q1, q2, q3) = if q3 == 0 { (1, 1, 1) } else { (q1, q2, q3) };
            if $aspect == 1 {
                let (e1, e2) = if int_mode {
                    ((((q1 as u64 * 100) / q3 as u64) % 16) as u8, (((q2 as u64 * 100) / q3 as u64) % 16) as u8)
                } else {
                    ((((q1.wrapping_mul(100) as f32) / q3 as f32) as u32 % 16) as u8, (((q2.wrapping_mul(100) as f32) / q3 as f32) as u32 % 16) as u8)
                };
                assert!(h.qratios().q1ratio() == e1 && h.qratios().q2ratio() == e2);
            } else if $aspect == 2 {
                let k: usize = kani::any(); kani::assume(k < 48);
                let d = if b[k] > q3 { 3 } else if b[k] > q2 { 2 } else if b[k] > q1 { 1 } else { 0 };
                use crate::hash::body::FuzzyHashBody;
                assert!(h.body().quartile(k) == d);
            } else {
                assert!(h.checksum().data() == g.checksum.data());
                assert!((h.length().value() as usize) < 170);
            }
        }
    };
}
finalize_aspect!(fin_s_errors, 0, 2);
finalize_aspect!(fin_s_qratio_int, 1, 0);
finalize_aspect!(fin_s_qratio_f32, 1, 1);
finalize_aspect!(fin_s_body, 2, 2);
finalize_aspect!(fin_s_misc, 3, 2);

// ---- Q-ratio aspect with the code's own quartile values captured at the aggregate call
static mut AGG_Q: (u32, u32, u32) = (0, 0, 0);
static mut AGG_CALLS: usize = 0;
#[allow(unsafe_code)]
fn aggregate_48_recording(out: &mut [u8; 12], _b: &[u32; 48], q1: u32, q2: u32, q3: u32) {
    unsafe { AGG_Q = (q1, q2, q3); AGG_CALLS += 1; }
    *out = kani::any();
}

macro_rules! qratio_aspect {
    ($name:ident, $int:literal) => {
        #[kani::proof]
        #[kani::unwind(50)]
        #[kani::stub(<[u32]>::select_nth_unstable, select_nth_recording)]
        #[kani::stub(crate::generate::bucket_aggregation::aggregate_48, aggregate_48_recording)]
        #[allow(unsafe_code)]
        fn $name() {
            let mut g: InnerGen<1, 12, 48, 15, 32> = Default::default();
            g.buckets.buckets = kani::any();
            g.len = kani::any();
            g.tail_len = kani::any();
            kani::assume(g.tail_len <= 4 && (g.tail_len == 4 || g.len == 0));
            let (small, half, quarter, conservative): (bool, bool, bool, bool) = kani::any();
            let mut opts = GeneratorOptions::new();
            opts.pure_integer_qratio_computation($int);
            opts.allow_small_size_files(small);
            opts.allow_statistically_weak_buckets_half(half);
            opts.allow_statistically_weak_buckets_quarter(quarter);
            if conservative { opts.length_processing_mode(crate::length::DataLengthProcessingMode::Conservative); }
            let (p1, p2, p3): (u32, u32, u32) = kani::any();
            kani::assume(p1 <= p2 && p2 <= p3);
            unsafe { REC_CALLS = 0; REC_PIV = [p2, p1, p3]; AGG_CALLS = 0; }
            let r = g.finalize_with_options(&opts);
            if let Ok(h) = r {
                let (q1, q2, q3) = unsafe { assert!(AGG_CALLS == 1); AGG_Q };
                // (1) what reaches the aggregation are the pivots, or the dummies
                assert!((q1, q2, q3) == if p3 == 0 { (1, 1, 1) } else { (p1, p2, p3) });
                // (2) the Q ratios are the reference formula of exactly those values
                let (e1, e2) = if $int {
                    ((((q1 as u64 * 100) / q3 as u64) % 16) as u8, (((q2 as u64 * 100) / q3 as u64) % 16) as u8)
                } else {
                    ((((q1.wrapping_mul(100) as f32) / q3 as f32) as u32 % 16) as u8, (((q2.wrapping_mul(100) as f32) / q3 as f32) as u32 % 16) as u8)
                };
                assert!(h.qratios().q1ratio() == e1 && h.qratios().q2ratio() == e2);
                kani::cover!(true, "ok path reachable");
            }
        }
    };
}
qratio_aspect!(fin_s_qratio_int_v2, true);
qratio_aspect!(fin_s_qratio_f32_v2, false);
