use vstd::prelude::*;
verus! {
pub enum GE { A, B }
pub enum GO { G(GE), I(u8) }
impl From<GE> for GO {
    fn from(value: GE) -> (r: Self) { GO::G(value) }
}
impl vstd::std_specs::convert::FromSpecImpl<GE> for GO {
    open spec fn obeys_from_spec() -> bool { true }
    open spec fn from_spec(v: GE) -> Self { GO::G(v) }
}
fn g(x: GE) -> (r: GO) ensures r == GO::G(x) { GO::from(x) }
fn f(x: Result<u8, GE>) -> (r: Result<u8, GO>)
    ensures x is Err ==> r is Err,
            x is Err ==> r == Err::<u8, GO>(GO::G(x->Err_0)),
            x is Ok ==> r == Ok::<u8, GO>(x->Ok_0),
{
    Ok(x?)
}
fn h(x: Result<u8, GE>) -> (r: Result<u8, GE>)
    ensures x is Err ==> r == x,
{
    Ok(x?)
}
}
fn main(){}
