
pub(crate) fn ref_dibit(x: u8, y: u8) -> u32 {
    let d = if x > y { x - y } else { y - x } as u32;
    if d == 3 { 6 } else { d }
}
pub(crate) fn ref_sub64(x: u64, y: u64) -> u32 {
    let mut s = 0u32;
    let mut i = 0;
    while i < 32 {
        s += ref_dibit(((x >> (2 * i)) & 3) as u8, ((y >> (2 * i)) & 3) as u8);
        i += 1;
    }
    s
}
fn ref_body_dist(a: &[u8], b: &[u8]) -> u32 {
    let mut s = 0u32;
    let mut i = 0;
    while i < a.len() {
        let mut j = 0;
        while j < 4 {
            s += ref_dibit((a[i] >> (2 * j)) & 3, (b[i] >> (2 * j)) & 3);
            j += 1;
        }
        i += 1;
    }
    s
}
#[kani::proof_for_contract(super::sub_distance)]
#[kani::unwind(33)]
fn fc_sub_distance() {
    let _ = super::sub_distance(kani::any(), kani::any());
}
#[kani::proof]
#[kani::stub_verified(super::sub_distance)]
#[kani::unwind(65)]
fn hc_distance_64_modular() {
    let a: [u8; 64] = kani::any();
    let b: [u8; 64] = kani::any();
    assert_eq!(super::distance_64(&a, &b), ref_body_dist(&a, &b));
}
