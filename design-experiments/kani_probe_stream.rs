//! C12 probe: hash_stream_common against an abstract generator and a scripted reader
use super::hash_stream_common;
use crate::errors::{GeneratorError, GeneratorOrIOError, ParseError};
use crate::generate::GeneratorOptions;
use crate::{FuzzyHashType, GeneratorType};
use std::io::{ErrorKind, Read};

/// Ghost generator: records how many bytes were fed and a witness check.
struct GhostGen {
    total: u64,
    /// absolute stream offset that the witness watches
    watch: u64,
    /// value seen at `watch` (if fed)
    seen: Option<u8>,
    calls: u32,
}
impl GeneratorType for GhostGen {
    type Output = crate::hashes::Short;
    const IS_CHECKSUM_EFFECTIVE: bool = true;
    const MIN: u32 = 0;
    const MIN_CONSERVATIVE: u32 = 0;
    const MAX: u32 = 0;
    fn processed_len(&self) -> Option<u32> { None }
    fn update(&mut self, data: &[u8]) {
        let n = data.len() as u64;
        if self.watch >= self.total && self.watch < self.total + n {
            self.seen = Some(data[(self.watch - self.total) as usize]);
        }
        self.total += n;
        self.calls += 1;
    }
    fn finalize_with_options(&self, _o: &GeneratorOptions) -> Result<Self::Output, GeneratorError> {
        Err(GeneratorError::TooSmallInput)
    }
}

/// Scripted reader: each call nondeterministically delivers k bytes, is interrupted, fails hard, or EOF.
struct ScriptReader {
    delivered: u64,
    watch: u64,
    wrote: Option<u8>,
    hard_err: bool,
    steps: u32,
}
impl Read for ScriptReader {
    fn read(&mut self, buf: &mut [u8]) -> std::io::Result<usize> {
        self.steps += 1;
        let ev: u8 = if self.steps > 3 { 0 } else { kani::any() };
        match ev {
            0 => Ok(0),
            1 => { self.hard_err = true; Err(ErrorKind::Other.into()) }
            _ => {
                let k: usize = kani::any();
                kani::assume(k >= 1 && k <= buf.len());
                if self.watch >= self.delivered && self.watch < self.delivered + k as u64 {
                    let v: u8 = kani::any();
                    buf[(self.watch - self.delivered) as usize] = v;
                    self.wrote = Some(v);
                }
                self.delivered += k as u64;
                Ok(k)
            }
        }
    }
}

#[kani::proof]
#[kani::unwind(6)]
fn stream_bounded_script() {
    let watch: u64 = kani::any();
    let mut g = GhostGen { total: 0, watch, seen: None, calls: 0 };
    let mut r = ScriptReader { delivered: 0, watch, wrote: None, hard_err: false, steps: 0 };
    let res = hash_stream_common(&mut g, &mut r);
    match res {
        Err(GeneratorOrIOError::IOError(_)) => assert!(r.hard_err),
        _ => {
            assert!(!r.hard_err);
            assert!(g.total == r.delivered);
            assert!(g.seen == r.wrote);
        }
    }
}

struct LyingReader { steps: u32 }
impl Read for LyingReader {
    fn read(&mut self, _buf: &mut [u8]) -> std::io::Result<usize> {
        self.steps += 1;
        if self.steps > 1 { return Ok(0); }
        let k: usize = kani::any();
        Ok(k)
    }
}
#[kani::proof]
#[kani::unwind(4)]
fn stream_lying_reader() {
    let mut g = GhostGen { total: 0, watch: 0, seen: None, calls: 0 };
    let mut r = LyingReader { steps: 0 };
    let _ = hash_stream_common(&mut g, &mut r);
}
