use vstd::prelude::*;
verus! {
pub open spec fn last4(t: Seq<u8>, d: Seq<u8>) -> Seq<u8> {
    (t + d).subrange((t + d).len() - 4, (t + d).len() as int)
}
fn epi_full(tail: &mut [u8; 4], data: &[u8])
    requires data.len() >= 4
    ensures final(tail)@ =~= last4(old(tail)@, data@)
{
    tail.copy_from_slice(&data[data.len() - 4usize..]);
}
fn epi_part(tail: &mut [u8; 4], data: &[u8])
    requires data.len() < 4
    ensures final(tail)@ =~= last4(old(tail)@, data@)
{
    tail.copy_within(data.len().., 0);
    tail[(4usize) - data.len()..].copy_from_slice(data);
}
}
fn main(){}
