//! intrinsic models (probe)
#![allow(unsafe_code)]
#[cfg(target_arch = "x86_64")]
use core::arch::x86_64::*;

pub(crate) unsafe fn model_mm_shuffle_epi8(a: __m128i, b: __m128i) -> __m128i {
    let a: [u8; 16] = core::mem::transmute(a);
    let b: [u8; 16] = core::mem::transmute(b);
    let mut r = [0u8; 16];
    let mut i = 0;
    while i < 16 {
        r[i] = if b[i] & 0x80 != 0 { 0 } else { a[(b[i] & 15) as usize] };
        i += 1;
    }
    core::mem::transmute(r)
}
pub(crate) unsafe fn model_mm256_shuffle_epi8(a: __m256i, b: __m256i) -> __m256i {
    let a: [u8; 32] = core::mem::transmute(a);
    let b: [u8; 32] = core::mem::transmute(b);
    let mut r = [0u8; 32];
    let mut i = 0;
    while i < 32 {
        let lane = i & 16;
        r[i] = if b[i] & 0x80 != 0 { 0 } else { a[lane + (b[i] & 15) as usize] };
        i += 1;
    }
    core::mem::transmute(r)
}
pub(crate) unsafe fn model_mm_packs_epi16(a: __m128i, b: __m128i) -> __m128i {
    let a: [i16; 8] = core::mem::transmute(a);
    let b: [i16; 8] = core::mem::transmute(b);
    let mut r = [0i8; 16];
    let mut i = 0;
    while i < 8 {
        r[i] = if a[i] > 127 { 127 } else if a[i] < -128 { -128 } else { a[i] as i8 };
        r[i + 8] = if b[i] > 127 { 127 } else if b[i] < -128 { -128 } else { b[i] as i8 };
        i += 1;
    }
    core::mem::transmute(r)
}

static mut DETECT_MASK: u128 = 0;
pub(crate) fn set_detect_mask(m: u128) { unsafe { DETECT_MASK = m; } }
pub(crate) fn model_detect_test(bit: u32) -> bool {
    unsafe { (DETECT_MASK >> (bit & 127)) & 1 == 1 }
}
