use vstd::prelude::*;
verus! {

pub open spec fn ref_qratio_int(q: u32, q3: u32) -> u8 {
    (((q as int * 100) / (q3 as int)) % 16) as u8
}

fn qratio_slice_int(q1: u32, q2: u32, q3: u32) -> (r: (u8, u8))
    requires q3 != 0
    ensures r.0 == ref_qratio_int(q1, q3), r.1 == ref_qratio_int(q2, q3)
{
    let (q1ratio, q2ratio) =
                (
                    (((q1 as u64 * 100) / q3 as u64) % 16) as u8,
                    (((q2 as u64 * 100) / q3 as u64) % 16) as u8,
                );
    (q1ratio, q2ratio)
}

fn qratio_slice_f32(q1: u32, q2: u32, q3: u32) -> (r: (u8, u8))
    requires q3 != 0
{
    let (q1ratio, q2ratio) =
                (
                    (((q1.wrapping_mul(100) as f32) / q3 as f32) as u32 % 16) as u8,
                    (((q2.wrapping_mul(100) as f32) / q3 as f32) as u32 % 16) as u8,
                );
    (q1ratio, q2ratio)
}
}
fn main(){}
