use vstd::prelude::*;
verus! {

pub assume_specification<T, E> [core::result::Result::<T, E>::unwrap_or] (r: core::result::Result<T, E>, d: T) -> (o: T)
    ensures o == (match r { Ok(v) => v, Err(_) => d });

pub const WINDOW_SIZE: usize = 5;

// ---------- abstract callees (contracts proved by the Kani back end)
pub uninterp spec fn bmap(salt: u8, a: u8, b: u8, c: u8) -> u8;
pub uninterp spec fn ck_upd(ck: Seq<u8>, curr: u8, prev: u8) -> Seq<u8>;

pub struct Buckets { pub buckets: [u32; 256] }
impl Buckets {
    #[verifier::external_body]
    pub fn increment(&mut self, index: u8)
        ensures final(self).buckets@ == old(self).buckets@.update(index as int, old(self).buckets@[index as int].wrapping_add(1u32))
    { unimplemented!() }
}
pub struct Checksum { pub data: [u8; 1] }
impl Checksum {
    #[verifier::external_body]
    pub fn update(&mut self, curr: u8, prev: u8)
        ensures final(self).data@ == ck_upd(old(self).data@, curr, prev)
    { unimplemented!() }
}

#[verifier::external_body]
pub fn unlikely(b: bool) -> (r: bool) ensures r == b { b }
#[verifier::external_body]
pub fn likely(b: bool) -> (r: bool) ensures r == b { b }

// ---------- spec
pub struct St {
    pub buckets: Seq<u32>,
    pub len: u32,
    pub ck: Seq<u8>,
    pub tail: Seq<u8>,
    pub tail_len: u32,
}

pub open spec fn inc(b: Seq<u32>, i: u8) -> Seq<u32> {
    b.update(i as int, b[i as int].wrapping_add(1u32))
}

pub const MAX_LEN_SPEC: u32 = 0xffff_fffc;

pub open spec fn hits(idx: Seq<u8>, k: int) -> nat decreases idx.len() {
    if idx.len() == 0 { 0 } else { hits(idx.drop_last(), k) + if idx.last() as int == k { 1nat } else { 0nat } }
}
/// pointwise: bucket k advances by the number of triplets mapped to k (mod 2^32) -- order-free
pub open spec fn bump(b: Seq<u32>, idx: Seq<u8>) -> Seq<u32> {
    Seq::new(b.len(), |k: int| ((b[k] as int + hits(idx, k) as int) % 0x1_0000_0000) as u32)
}
pub proof fn lemma_bump_push(b: Seq<u32>, idx: Seq<u8>, i: u8)
    requires b.len() == 256
    ensures inc(bump(b, idx), i) =~= bump(b, idx.push(i))
{
    assert(idx.push(i).drop_last() =~= idx);
    assert forall|k: int| 0 <= k < 256 implies inc(bump(b, idx), i)[k] == bump(b, idx.push(i))[k] by {
        let x = b[k] as int + hits(idx, k) as int;
        let d: int = if i as int == k { 1 } else { 0 };
        assert(hits(idx.push(i), k) == hits(idx, k) + d);
        vstd::arithmetic::div_mod::lemma_add_mod_noop(x, d, 0x1_0000_0000);
        vstd::arithmetic::div_mod::lemma_small_mod(d as nat, 0x1_0000_0000);
        let r = x % 0x1_0000_0000;
        if d == 1 {
            assert(bump(b, idx)[k].wrapping_add(1u32) as int == (r + 1) % 0x1_0000_0000) by {
                if r + 1 == 0x1_0000_0000 { } else { vstd::arithmetic::div_mod::lemma_small_mod((r + 1) as nat, 0x1_0000_0000); }
            }
        } else {
            vstd::arithmetic::div_mod::lemma_small_mod(r as nat, 0x1_0000_0000);
        }
    }
}
pub proof fn lemma_hits6(i0: u8, i1: u8, i2: u8, i3: u8, i4: u8, i5: u8, k: int)
    ensures hits(seq![i0, i1, i2, i3, i4, i5], k) ==
        (if i0 as int == k { 1nat } else { 0nat }) + (if i1 as int == k { 1nat } else { 0nat }) + (if i2 as int == k { 1nat } else { 0nat })
      + (if i3 as int == k { 1nat } else { 0nat }) + (if i4 as int == k { 1nat } else { 0nat }) + (if i5 as int == k { 1nat } else { 0nat })
{
    reveal_with_fuel(hits, 8);
    assert(seq![i0, i1, i2, i3, i4, i5].drop_last() =~= seq![i0, i1, i2, i3, i4]);
    assert(seq![i0, i1, i2, i3, i4].drop_last() =~= seq![i0, i1, i2, i3]);
    assert(seq![i0, i1, i2, i3].drop_last() =~= seq![i0, i1, i2]);
    assert(seq![i0, i1, i2].drop_last() =~= seq![i0, i1]);
    assert(seq![i0, i1].drop_last() =~= seq![i0]);
    assert(seq![i0].drop_last() =~= Seq::<u8>::empty());
}
pub proof fn lemma_bump_empty(b: Seq<u32>)
    requires b.len() == 256
    ensures bump(b, Seq::<u8>::empty()) =~= b
{
    assert forall|k: int| 0 <= k < 256 implies bump(b, Seq::<u8>::empty())[k] == b[k] by {
        vstd::arithmetic::div_mod::lemma_small_mod(b[k] as nat, 0x1_0000_0000);
    }
}
pub proof fn lemma_bump6(b: Seq<u32>, i0: u8, i1: u8, i2: u8, i3: u8, i4: u8, i5: u8)
    requires b.len() == 256
    ensures inc(inc(inc(inc(inc(inc(b, i0), i1), i2), i3), i4), i5) =~= bump(b, seq![i0, i1, i2, i3, i4, i5])
{
    let e = Seq::<u8>::empty();
    lemma_bump_empty(b);
    lemma_bump_push(b, e, i0);
    lemma_bump_push(b, e.push(i0), i1);
    lemma_bump_push(b, e.push(i0).push(i1), i2);
    lemma_bump_push(b, e.push(i0).push(i1).push(i2), i3);
    lemma_bump_push(b, e.push(i0).push(i1).push(i2).push(i3), i4);
    lemma_bump_push(b, e.push(i0).push(i1).push(i2).push(i3).push(i4), i5);
    assert(e.push(i0).push(i1).push(i2).push(i3).push(i4).push(i5) =~= seq![i0, i1, i2, i3, i4, i5]);
    assert(inc(b, i0) =~= inc(bump(b, e), i0));
}

pub open spec fn step(s: St, b4: u8) -> St {
    if s.tail_len < 4 {
        St { tail: s.tail.update(s.tail_len as int, b4), tail_len: (s.tail_len + 1) as u32, ..s }
    } else if s.len >= MAX_LEN_SPEC {
        s
    } else {
        let b0 = s.tail[0]; let b1 = s.tail[1]; let b2 = s.tail[2]; let b3 = s.tail[3];
        let bk = bump(s.buckets, seq![bmap(2, b4, b3, b2), bmap(3, b4, b3, b1), bmap(5, b4, b2, b1),
            bmap(7, b4, b2, b0), bmap(11, b4, b3, b0), bmap(13, b4, b1, b0)]);
        St {
            buckets: bk,
            len: (s.len + 1) as u32,
            ck: ck_upd(s.ck, b4, b3),
            tail: seq![b1, b2, b3, b4],
            tail_len: s.tail_len,
        }
    }
}

#[verifier::opaque]
pub open spec fn feed(s: St, d: Seq<u8>) -> St
    decreases d.len()
{
    if d.len() == 0 { s } else { step(feed(s, d.drop_last()), d.last()) }
}


pub proof fn lemma_feed_concat(s: St, a: Seq<u8>, b: Seq<u8>)
    ensures feed(s, a + b) == feed(feed(s, a), b)
    decreases b.len()
{
    reveal_with_fuel(feed, 2);
    if b.len() == 0 {
        assert(a + b =~= a);
    } else {
        lemma_feed_concat(s, a, b.drop_last());
        assert((a + b).drop_last() =~= a + b.drop_last());
        assert((a + b).last() == b.last());
    }
}

pub open spec fn fill(t: Seq<u8>, at: int, d: Seq<u8>) -> Seq<u8> {
    Seq::new(t.len(), |i: int| if at <= i < at + d.len() { d[i - at] } else { t[i] })
}

pub proof fn lemma_feed_fill(s: St, d: Seq<u8>)
    requires s.tail.len() == 4, s.tail_len + d.len() <= 4
    ensures feed(s, d) == (St { tail: fill(s.tail, s.tail_len as int, d), tail_len: (s.tail_len + d.len()) as u32, ..s })
    decreases d.len()
{
    reveal_with_fuel(feed, 2);
    if d.len() == 0 {
        assert(fill(s.tail, s.tail_len as int, d) =~= s.tail);
    } else {
        lemma_feed_fill(s, d.drop_last());
        let p = feed(s, d.drop_last());
        assert(fill(s.tail, s.tail_len as int, d) =~= p.tail.update(p.tail_len as int, d.last()));
    }
}

pub proof fn lemma_feed_saturated(s: St, d: Seq<u8>)
    requires s.tail_len == 4, s.len >= MAX_LEN_SPEC
    ensures feed(s, d) == s
    decreases d.len()
{
    reveal_with_fuel(feed, 2);
    if d.len() > 0 { lemma_feed_saturated(s, d.drop_last()); }
}

pub proof fn lemma_feed_len(s: St, d: Seq<u8>)
    requires s.tail_len == 4, s.len + d.len() <= MAX_LEN_SPEC
    ensures feed(s, d).tail_len == 4, feed(s, d).len == s.len + d.len()
    decreases d.len()
{
    reveal_with_fuel(feed, 2);
    if d.len() > 0 { lemma_feed_len(s, d.drop_last()); }
}

pub open spec fn last4(t: Seq<u8>, d: Seq<u8>) -> Seq<u8> {
    (t + d).subrange((t + d).len() - 4, (t + d).len() as int)
}
pub proof fn lemma_feed_tail(s: St, d: Seq<u8>)
    requires s.tail_len == 4, s.tail.len() == 4, s.len + d.len() <= MAX_LEN_SPEC
    ensures feed(s, d).tail =~= last4(s.tail, d)
    decreases d.len()
{
    reveal_with_fuel(feed, 2);
    if d.len() == 0 {
        assert(s.tail + d =~= s.tail);
    } else {
        lemma_feed_tail(s, d.drop_last());
        lemma_feed_len(s, d.drop_last());
        assert((s.tail + d).drop_last() =~= s.tail + d.drop_last());
    }
}

pub proof fn lemma_last4(t: Seq<u8>, d: Seq<u8>)
    requires t.len() == 4
    ensures
        last4(t, d).len() == 4,
        d.len() >= 4 ==> (forall|i: int| 0 <= i < 4 ==> last4(t, d)[i] == d[d.len() - 4 + i]),
        d.len() < 4 ==> (forall|i: int| 0 <= i < 4 ==> last4(t, d)[i] == (if i < 4 - d.len() { t[i + d.len()] } else { d[i - (4 - d.len())] })),
{
}

pub proof fn lemma_feed_empty(s: St)
    ensures feed(s, Seq::<u8>::empty()) == s
{
    reveal_with_fuel(feed, 2);
}
pub proof fn lemma_feed_push(s: St, d: Seq<u8>, i: int)
    requires 0 <= i < d.len()
    ensures feed(s, d.take(i + 1)) == step(feed(s, d.take(i)), d[i])
{
    reveal_with_fuel(feed, 2);
    assert(d.take(i + 1).drop_last() =~= d.take(i));
    assert(d.take(i + 1).last() == d[i]);
}

pub struct Generator {
    pub buckets: Buckets,
    pub len: u32,
    pub checksum: Checksum,
    pub tail: [u8; WINDOW_SIZE - 1],
    pub tail_len: u32,
}

impl Generator {
    pub open spec fn view(&self) -> St {
        St { buckets: self.buckets.buckets@, len: self.len, ck: self.checksum.data@, tail: self.tail@, tail_len: self.tail_len }
    }
    pub open spec fn wf(&self) -> bool {
        self.tail_len <= 4 && (self.tail_len < 4 ==> self.len == 0) && self.len <= MAX_LEN_SPEC
    }

    const TAIL_SIZE: u32 = (WINDOW_SIZE - 1) as u32;
    const MAX_LEN: u32 = u32::MAX - (Self::TAIL_SIZE - 1);

    #[verifier::external_body]
    fn b_mapping(v0: u8, v1: u8, v2: u8, v3: u8) -> (r: u8)
        ensures r == bmap(v0, v1, v2, v3)
    { unimplemented!() }

    fn update(&mut self, data: &[u8])
        requires old(self).wf()
        ensures final(self).wf(), final(self).view() == feed(old(self).view(), data@)
    {
        let ghost s0 = self.view();
        let ghost d0 = data@;
        // Fill self.tail (before we start updating).
        let mut data = data;
        if self.tail_len < Self::TAIL_SIZE {
            let tail_len = self.tail_len as usize;
            let remaining = Self::TAIL_SIZE as usize - tail_len;
            if data.len() <= remaining {
                self.tail[tail_len..tail_len + data.len()].copy_from_slice(data);
                self.tail_len += data.len() as u32;
                // self.tail is not yet filled
                // (or filled but no more bytes to update).
                proof {
                    lemma_feed_fill(s0, d0);
                    assert(self.tail@ =~= fill(s0.tail, s0.tail_len as int, d0));
                }
                return;
            }
            self.tail[tail_len..].copy_from_slice(&data[..remaining]);
            self.tail_len += remaining as u32;
            // self.tail is now filled and we have more data. Continuing.
            proof {
                lemma_feed_fill(s0, d0.subrange(0, remaining as int));
                assert(self.tail@ =~= fill(s0.tail, s0.tail_len as int, d0.subrange(0, remaining as int)));
            }
            data = &data[remaining..];
        }
        let ghost k0 = d0.len() - data@.len();
        let ghost s1 = self.view();
        proof {
            assert(d0 =~= d0.subrange(0, k0) + data@);
            assert(s1 == feed(s0, d0.subrange(0, k0))) by {
                if k0 == 0 { assert(d0.subrange(0, k0) =~= Seq::<u8>::empty()); lemma_feed_empty(s0); }
            }
            lemma_feed_concat(s0, d0.subrange(0, k0), data@);
        }
        // If we have processed 4GiB already, ignore the rest.
        if unlikely(self.len >= Self::MAX_LEN) {
            proof { lemma_feed_saturated(s1, data@); }
            return;
        }
        let ghost d1 = data@;
        // Update the processed data length
        let mut data_len = u32::try_from(data.len()).unwrap_or(u32::MAX);
        if unlikely(data_len > Self::MAX_LEN - self.len) {
            // Processing the data exceeds the first 4GiB.
            data_len = Self::MAX_LEN - self.len;
            data = &data[..data_len as usize];
        }
        proof {
            // feeding the rest after saturation changes nothing
            let rest = d1.subrange(data@.len() as int, d1.len() as int);
            assert(d1 =~= data@ + rest);
            lemma_feed_concat(s1, data@, rest);
            lemma_feed_len(s1, data@);
            if rest.len() > 0 { lemma_feed_saturated(feed(s1, data@), rest); }
            else { assert(rest =~= Seq::<u8>::empty()); }
        }
        self.len += data_len;
        // Update the buckets based on the 5-byte window.
        let (mut b0, mut b1, mut b2, mut b3) =
            (self.tail[0], self.tail[1], self.tail[2], self.tail[3]);
        proof {
            assert(data@.take(0) =~= Seq::<u8>::empty());
            lemma_feed_empty(s1);
            assert(s1.tail =~= seq![b0, b1, b2, b3]);
            assert(s1.tail.len() == 4);
        }
        for b4r in it: data
            invariant
                s1.tail_len == 4,
                s1.len + data@.len() <= MAX_LEN_SPEC,
                0 <= it.index@ <= data@.len(), it.history@.len() == it.index@,
                self.len == s1.len + data@.len(),
                self.tail_len == 4,
                self.tail@ == s1.tail,
                (St { buckets: self.buckets.buckets@, len: (s1.len + it.index@) as u32, ck: self.checksum.data@,
                      tail: seq![b0, b1, b2, b3], tail_len: 4 }) == feed(s1, data@.take(it.index@)),
        {
            let b4 = *b4r;
            let ghost pre = feed(s1, data@.take(it.index@));
            proof {
                lemma_feed_push(s1, data@, it.index@);
                assert(feed(s1, data@.take(it.index@ + 1)) == step(pre, b4));
                assert(pre.tail_len == 4 && pre.len < MAX_LEN_SPEC);
                assert(pre.tail[0] == b0 && pre.tail[1] == b1 && pre.tail[2] == b2 && pre.tail[3] == b3);
            }
            // Update the checksum and buckets
            self.checksum.update(b4, b3);
            self.buckets.increment(Self::b_mapping(0xd, b4, b1, b0));
            self.buckets.increment(Self::b_mapping(0x3, b4, b3, b1));
            self.buckets.increment(Self::b_mapping(0x5, b4, b2, b1));
            self.buckets.increment(Self::b_mapping(0x7, b4, b2, b0));
            self.buckets.increment(Self::b_mapping(0xb, b4, b3, b0));
            self.buckets.increment(Self::b_mapping(0x2, b4, b3, b2));
            proof {
                // order-agnostic: whatever order the six increments ran in, pointwise result is bump(pre, SPEC)
                let i0 = bmap(2, b4, b3, b2); let i1 = bmap(3, b4, b3, b1); let i2 = bmap(5, b4, b2, b1);
                let i3 = bmap(7, b4, b2, b0); let i4 = bmap(11, b4, b3, b0); let i5 = bmap(13, b4, b1, b0);
                let spec_idx = seq![i0, i1, i2, i3, i4, i5];
                assert forall|k: int| 0 <= k < 256 implies self.buckets.buckets@[k] == bump(pre.buckets, spec_idx)[k] by {
                    lemma_hits6(i0, i1, i2, i3, i4, i5, k);
                    let c: int = hits(spec_idx, k) as int;
                    let x: int = pre.buckets[k] as int;
                    assert(0 <= c <= 6);
                    if x + c < 0x1_0000_0000 { vstd::arithmetic::div_mod::lemma_small_mod((x + c) as nat, 0x1_0000_0000); }
                    else { vstd::arithmetic::div_mod::lemma_mod_sub_multiples_vanish(x + c, 0x1_0000_0000); vstd::arithmetic::div_mod::lemma_small_mod((x + c - 0x1_0000_0000) as nat, 0x1_0000_0000); }
                }
                assert(self.buckets.buckets@ =~= bump(pre.buckets, spec_idx));
            }
            // Shift
            let __t = (b1, b2, b3, b4); b0 = __t.0; b1 = __t.1; b2 = __t.2; b3 = __t.3;
        }
        proof {
            assert(data@.take(data@.len() as int) =~= data@);
            lemma_feed_tail(s1, data@);
            lemma_last4(s1.tail, data@);
            assert(feed(s1, data@).tail == seq![b0, b1, b2, b3]);
        }
        let ghost t_old = self.tail@;
        // Update self.tail.
        if likely(data.len() >= self.tail.len()) {
            // Full overwrite
            self.tail
                .copy_from_slice(&data[data.len() - Self::TAIL_SIZE as usize..]);
            proof {
                assert forall|i: int| 0 <= i < 4 implies self.tail@[i] == last4(s1.tail, data@)[i] by {}
                assert(self.tail@ =~= last4(s1.tail, data@));
            }
        } else {
            // Partial overwrite (shift and write)
            self.tail.copy_within(data.len().., 0);
            self.tail[(Self::TAIL_SIZE as usize) - data.len()..].copy_from_slice(data);
            proof {
                assert forall|i: int| 0 <= i < 4 implies self.tail@[i] == last4(s1.tail, data@)[i] by {}
                assert(self.tail@ =~= last4(s1.tail, data@));
            }
        }
    }
}

} // verus!
fn main() {}
