#!/usr/bin/env python3
"""tools/save_seed.py <ID> <seed-name> <property> "<what it needs to manifest>" "<demo command>" -- copy a confirmed seeded change from /tmp/wt-<ID> to /verif/seeded/<seed-name>/"""
import json, os, shutil, subprocess, sys, glob
wid, name, prop, needs, democmd = sys.argv[1:6]
wt = os.environ.get("WTPREFIX", "/tmp/wt-") + wid
dst = os.path.join(os.path.dirname(os.path.dirname(os.path.abspath(__file__))), "seeded", name)
os.makedirs(dst, exist_ok=True)
diff = subprocess.run(["git", "-C", wt, "diff", "--", "fast-tlsh/src"], capture_output=True, text=True).stdout
open(os.path.join(dst, "patch.diff"), "w").write(diff)
demos = glob.glob(wt + "/fast-tlsh/tests/demo_*.rs")
for d in demos:
    shutil.copy(d, dst)
if os.path.exists(wt + "/META.md"):
    shutil.copy(wt + "/META.md", os.path.join(dst, "AGENT_META.md"))
meta = {"property": prop, "breaks": open(wt + "/META.md").read().split("\n")[0:3] if os.path.exists(wt + "/META.md") else "",
        "needs_to_manifest": needs, "demo": [os.path.basename(d) for d in demos], "demo_cmd": democmd,
        "confirmed": {"existing_suite_with_change": "pass (cargo test --workspace --offline, demo moved aside)",
                      "demo_with_change": "fails", "demo_without_change": "passes", "how": "tools/confirm_seed.sh " + wid + " (worktree " + wt + ")"},
        "files_touched": [l.split()[-1][2:] for l in diff.split("\n") if l.startswith("+++ ")],
        "author": "independent sub-agent given only the property text and a scratch worktree",
        "caught_by": []}
json.dump(meta, open(os.path.join(dst, "meta.json"), "w"), indent=1)
print("saved", dst)
