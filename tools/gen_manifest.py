#!/usr/bin/env python3
"""Regenerates /verif/MANIFEST.json from the table below (kept in one place so the
manifest, the catalogue and DESIGN.md do not drift)."""
import json
import os
import sys

VERIF = os.path.dirname(os.path.dirname(os.path.abspath(__file__)))
sys.path.insert(0, VERIF)

TECH_KANI = "contract-based deductive verification: Kani/CBMC harness-as-contract obligations on the real crate (full input domain, unwinding assertions on)"
TECH_BOTH = "contract-based deductive verification: Verus (inductive invariants on mechanically extracted real functions) + Kani/CBMC harness-as-contract obligations on the real crate"

# id -> (claimed?, technique, level text, level note, design_ref)
CHECKS = {}

NOT_BUILT = {}


def add(pid, technique, text, note, ref):
    CHECKS[pid] = dict(technique=technique, text=text, note=note, ref=ref)


from tools.manifest_table import fill  # noqa: E402

fill(add, NOT_BUILT, TECH_KANI, TECH_BOTH)

m = {
    "version": 1,
    "setup_cmd": "./setup.sh",
    "hooks": {
        "guard": "kani",
        "enable": "cfg(kani) is set by the Kani compiler itself; the add-only overlay (kani/overlay) is applied to a scratch copy of /repo on every run. No source hook is committed to /repo.",
        "baseline_off_cmd": "cd /repo && cargo test --workspace --no-fail-fast --offline",
        "source_commits": [],
        "add_only": True,
    },
    "engines": [
        {"name": "kani", "path": "kani/overlay", "serves_properties": sorted(CHECKS),
         "kind_free_text": "Kani 0.68 / CBMC 6.11 on a scratch copy of the real crate with child-module harnesses"},
        {"name": "verus", "path": "verus", "serves_properties": ["C01", "C03", "C10", "C11", "C12", "C15", "C17"],
         "kind_free_text": "Verus 0.2026.09.13 on functions extracted mechanically from /repo on every run"},
    ],
    "checks": [],
    "notes": "See DESIGN.md. Exit 0 = all obligations discharged; 1 = VIOLATION line(s); 2 = undecided (tool limit), never an alarm.",
    "not_applicable": [{"property_id": k, "reason": v} for k, v in sorted(NOT_BUILT.items())],
}
for pid in sorted(CHECKS):
    c = CHECKS[pid]
    m["checks"].append({
        "property_id": pid,
        "quick_cmd": "./check %s --tier quick" % pid,
        "thorough_cmd": "./check %s --tier thorough" % pid,
        "evidence_file": "/verif/evidence/%s.json" % pid,
        "replay_cmd_template": "./check replay {path}",
        "engine": "kani+verus",
        "level_claimed": {"category": "proof", "text": c["text"], "design_ref": c["ref"]},
        "level_note": c["note"],
        "technique": c["technique"],
    })
with open(os.path.join(VERIF, "MANIFEST.json"), "w") as fh:
    json.dump(m, fh, indent=1)
    fh.write("\n")
print("wrote MANIFEST.json: %d checks, %d not_applicable" % (len(m["checks"]), len(m["not_applicable"])))
