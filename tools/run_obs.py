#!/usr/bin/env python3
"""Developer helper: run selected obligations (substring filters) in one row and print verdicts."""
import sys, os
sys.path.insert(0, os.path.dirname(os.path.dirname(os.path.abspath(__file__))))
from vlib import common, kanirun
row = sys.argv[1]
filters = sys.argv[2:]
obs = [o for o in kanirun.scan_catalogue() if any(f in o['id'] for f in filters)]
for o in obs:
    o['timeout'] = int(os.environ.get("T", "2700"))
with common.Scratch("dev%d" % os.getpid()) as sc:
    common.apply_overlay(sc)
    res = kanirun.run_selection(sc, [(o, row) for o in obs], 'thorough', total_jobs=int(os.environ.get("J", "8")))
    for k, v in sorted(res.items()):
        print(k, v['verdict'], v['seconds'], v['reason'][:1500], flush=True)
