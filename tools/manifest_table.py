"""The per-property manifest entries (claimed checks and not-yet-claimed ones)."""


def fill(add, not_built, KANI, BOTH):
    add("C02", KANI,
        "Every part-distance function of the real crate is proved equal to the frozen reference formula over its full input domain "
        "(ring distance 2^24, Q-ratio and length distances 2^16 in every table configuration, checksum distances, bit-sliced body "
        "distance over all 2^128 / 2^64 operand pairs, every compiled backend), and compare_with_config is proved to be their sum. "
        "A universally quantified claim over up to 2^552 x 2^552 pairs needs a proof, not samples.",
        "Trusted: Kani/CBMC, rustc, the /verif spec library (frozen constants). Assumed: stdarch's portable definitions of the x86 intrinsics "
        "equal the hardware instructions (validated natively at setup); spurious simd_add/sub/mul overflow checks filtered by description.",
        "DESIGN.md section 3 C02")
    for pid in ["C01", "C03", "C04", "C05", "C06", "C07", "C08", "C09", "C10", "C11", "C12", "C13", "C14", "C15", "C16", "C17", "C18"]:
        not_built[pid] = "check under construction in this round (design in DESIGN.md section 3); not claimed until its obligations discharge on the unchanged tree"
