"""The per-property manifest entries."""


def fill(add, not_built, KANI, BOTH):
    VER = "contract-based deductive verification: Verus (inductive invariants / lemmas on mechanically extracted real functions)"
    add("C01", BOTH,
        "Compositional proof that generation equals the reference TLSH algorithm: (a) every leaf (Pearson tables, bucket mapping, checksum update, bucket increment with whole-array frame, dibit classification, length code) is proved equal to the frozen reference over its full domain; (b) the real body of Generator::update, extracted mechanically, is proved by Verus to refine the byte-wise reference fold for ALL data lengths and ALL well-formed states (incl. saturation at 2^32-4); (c) finalize_with_options is proved per aspect (selection call pattern and rejection order, header, body) on EVERY generator state and option setting, with the quartile lemma (Verus) deriving the reference order statistics from select_nth_unstable's documented contract; (d) the integer Q-ratio statement is proved against the mathematical formula. A universally quantified statement over all byte strings and over states only multi-GiB inputs reach needs a proof.",
        "Assumed: documented contract of <[T]>::select_nth_unstable; Intel-SDM models of 3 intrinsics (simd row); Verus callees by contracts that the Kani obligations discharge. NOT PROVED: the legacy f32 Q-ratio formula (binary32 divider equivalence is out of reach of the installed verifiers) - decided by token identity with the frozen reference expression, else by a native search; reported under non_solver_obligations.",
        "DESIGN.md section 3 C01")
    add("C02", BOTH,
        "Every part-distance function of the real crate is proved equal to the frozen reference formula over its full input domain (ring distance 2^24, Q-ratio and length distances 2^16 in every table configuration, checksum distances, bit-sliced body distance over all 2^128 / 2^64 word pairs, every compiled x86 back end over all body pairs), the body-distance selection layer is proved to run exactly one back end on the two bodies for every CPU detection outcome, and compare_with_config is proved to be the sum of the four parts for all pairs of hashes and both modes.",
        "Trusted: Kani/CBMC, rustc, the /verif spec library. Assumed: stdarch's portable definitions of the x86 intrinsics equal the hardware instructions; the integer add/sub/multiply intrinsics are replaced by wrapping lane-wise models (Intel SDM semantics) because Kani's overflow check on them is followed by an assume that would exclude wrapping inputs. SAT cannot re-associate adder trees, so the SSE2/SSE4.1/AVX2 horizontal sums are proved against a tree-shaped expected value whose equality with the flat sum is a Verus lemma over the same text. The dist_body.probe.* obligations are bounded (structured inputs) and reported as such.",
        "DESIGN.md section 3 C02")
    add("C03", BOTH,
        "The update contract is history-free (view' = ref_feed(view, data), proved by Verus on the real body for all data and states); chunking independence is the Verus lemma feed(s, a++b) = feed(feed(s,a), b) lifted to any sequence of pieces (incl. empty and 1-3 byte pieces, which are the tail paths inside the proved function); finalize takes &self (no interior mutability: source scan) and the finalize obligations assert the generator is unchanged; clone is proved to be the identity on every state.",
        "Assumed: callee contracts inside the Verus unit (discharged by Kani leaf obligations); likely()/unlikely() are the identity.",
        "DESIGN.md section 3 C03")
    add("C04", KANI,
        "For every hash value of every variant: the hex serializer writes exactly the advertised length, 'T1' + upper-case hex with header bytes nibble-swapped (witness position), format-then-parse is the identity through every prefix mode, and every accepted string re-formats to its own upper-cased, prefix-normalised form; Display and FromStr are proved equal to the byte-level functions. Codec leaves are proved against their functional contracts in every table configuration and the glue is proved against those contracts.",
        "Assumed for the default-feature (simd) build only: hex_simd::{encode,decode} (external, behind CPU detection; not executable by Kani). core::str::from_utf8 by its ASCII contract (the model asserts ASCII, which is also the soundness condition of from_utf8_unchecked under feature 'unsafe').",
        "DESIGN.md section 3 C04/C05")
    add("C05", KANI,
        "from_str_bytes is proved total (all Kani panic/bounds/overflow checks) and to accept exactly the well-formed strings, for every byte string of the two acceptable lengths (all 256 byte values everywhere) in each prefix mode plus every other (mode, length <= LEN+2) combination; the value equals the denoted value; a wrong length is always InvalidStringLength and every other error applies to the input.",
        "Inputs longer than LEN+2 only reach len() (by inspection of the length gate; stated in the obligation domain). Table variants of the digit decoders are separate leaf obligations per codec row.",
        "DESIGN.md section 3 C04/C05")
    add("C06", KANI,
        "For every byte array of the right size: TryFrom then store_into_bytes is the identity, fields are checksum / length / Q-ratio (Q2 high nibble) / body in that order and agree with the accessors, slices of any other length 0..=SIZE+8 are a length error, quartile(i) reads bits 2(i%4) of byte len-1-i/4 without panicking for every i < NUM_BUCKETS (out of range: only the documented clean panic), clear_checksum zeroes ALL checksum bytes and nothing else.",
        "Trusted: Kani/CBMC, spec library.",
        "DESIGN.md section 3 C06")
    add("C07", BOTH,
        "Configuration independence by modularity: every function selected by a build configuration is proved against the SAME functional contract - Pearson/Q-ratio/length tables vs naive code, hex codec table variants (full/half/quarter/min), both bucket memory layouts (one Verus proof of update with the bucket count abstract), naive/SSE2/SSSE3/AVX2 aggregation, pseudo-SIMD 32/64 and SSE2/SSE4.1/AVX2 body distance - and the two run-time dispatchers are proved to return a contract-satisfying back end's result for EVERY CPU detection outcome.",
        "ARGUED, not explored: the thread-schedule clause (Kani has no threads): the init closure is a pure function of the CPU feature set, every value it can return satisfies the same contract, OnceLock returns one of them (assumed std contract). Non-x86 back ends are not compiled here. Intel-SDM models of 10 intrinsics are assumed (3 shuffles/packs for aggregation, 7 wrapping add/sub/mul for body distance). The update.chunking_bounded.* obligations for cfg-dependent update paths are bounded and reported as such.",
        "DESIGN.md section 3 C07, section 5")
    add("C08", BOTH,
        "Reflexivity, symmetry, zero-iff-equal, bounds (attained, by cover witnesses), mode consistency and the clear_checksum relation are proved as lemmas over the C02 contracts: per part on the real functions / frozen spec over full domains (Kani), lifted to the total by Verus linear-arithmetic lemmas; max_distance is proved to be the sum of the part maxima.",
        "Same as C02.",
        "DESIGN.md section 3 C08")
    add("C09", KANI,
        "FuzzyHashLengthEncoding::new is proved over all 2^32 lengths (Some iff len <= 4,224,281,216; the code is the unique index with TOPVAL[c-1] < len <= TOPVAL[c], witness form; includes the three invariant!() sites and core's binary_search); range()/is_valid over all 256 codes; tiling, monotonicity and membership<=>code as spec lemmas on the frozen table; generated hashes carry the code of the fed length (finalize.header.* + Verus length lemma).",
        "The non-CLZ cfg branch of new() is not compiled on x86_64 and is not covered.",
        "DESIGN.md section 3 C09")
    add("C10", BOTH,
        "DataLengthValidity and the published limits are proved equal to the reference over all lengths/variants/modes; the acceptance gate of finalize (which rejection, in which order) is proved for every state and option setting; the lattice laws (more permissive never rejects an accepted input, too-large never waivable, QUARTER implies HALF) are Verus lemmas on that gate; the payload aspects show that an accepted input's hash does not depend on the permissive flags.",
        "Assumed: select_nth_unstable's documented contract.",
        "DESIGN.md section 3 C10")
    add("C11", BOTH,
        "Entirely inside the update contract: the Verus proof of the real body covers the saturation early return, truncation of the crossing piece, tail rewrite after truncation, usize->u32 clamping and absence of += overflow for EVERY prior length (no 4 GiB feed needed); Verus lemma: processed length is exact below 2^32 and None from 2^32 on; finalize gate: TooLargeInput iff the fed length exceeds the maximum, code 169 at exactly the maximum.",
        "Same assumptions as C01(b).",
        "DESIGN.md section 3 C11")
    add("C12", BOTH,
        "hash_stream_common, extracted mechanically, is proved by Verus against an abstract reader history (unbounded: any number of partial reads, interruptions, errors, any stream length) and an abstract generator: result = result_of(all delivered bytes); an I/O error is returned only for a non-Interrupted reader error. A BOUNDED Kani twin (<= 2/3 reader events) on the real function supplies replayable counterexamples and is reported as bounded.",
        "Assumed: Read implementors return n <= buf.len() in the Verus unit (violators: C17 obligations); File: Read delivers the file's bytes (hash_file*: structure only); termination is not claimed. The defect found here (Interrupted not retried) was repaired in /repo 598b0a2.",
        "DESIGN.md section 3 C12, section 4")
    add("C13", KANI,
        "compare_with<T> is generic, so it is proved against the trait's contract with a ghost hash type (arbitrary recorded parser outcomes and distance): parse left first, then right; side-tagged error; distance of left to right. FromStr of the real types is proved equal to from_str_bytes(.., None), whose contract (C05) is case- and prefix-insensitive.",
        "compare = compare_with::<Tlsh> by definition (one-line wrapper, checked on the length-gate path only).",
        "DESIGN.md section 3 C13")
    add("C14", KANI,
        "For every hash value, each form (binary, hex, hex+prefix) and a buffer of symbolic length 0..=N+8 with arbitrary prior content: BufferIsTooSmall iff shorter than the advertised size, else Ok(size), the first size bytes are the representation and every byte beyond is unchanged (witness index). The encoders' own contracts (exactly 2N bytes written, rest of the destination untouched) are proved per table configuration for every destination length 2N..=2N+8.",
        "Buffers longer than N+8 are not explored (the functions only ever slice by constants after the gate); simd row: hex_simd::encode by assumed contract.",
        "DESIGN.md section 3 C14")
    add("C15", BOTH,
        "In the strict-parser build the parse/TryFrom obligations are discharged with acceptance = lenient and code < 170 and (48-bucket: checksum <= 48), equal values, and applicable error kinds; the generator side is proved in any build: the folded Pearson table yields <= 48 (leaf), update preserves it (Verus carries the checksum through ck_upd), finalize copies the checksum and emits a code < 170, and format-then-parse is the identity in the strict row.",
        "Inputs with several simultaneous defects may report any applicable error (the property fixes single-reason inputs only).",
        "DESIGN.md section 3 C15")
    add("C16", KANI,
        "At the serde data-model boundary, against a most-general mock Serializer/Deserializer: serialize makes exactly one call - serialize_str of the 'T1' hex text (human-readable) or serialize_bytes of the binary form; deserialize accepts exactly what the matching parser accepts with the same value, every other visitor event is an error, and nothing panics - in the serde, serde+strict-parser and serde-buffered builds.",
        "The format crates (serde_json, ciborium, postcard) are external and trusted. The defect found here (bytes visitor unwrap under strict-parser) was repaired in /repo 881a2ee.",
        "DESIGN.md section 3 C16, section 4")
    add("C17", BOTH,
        "Every obligation runs with Kani's panic/overflow/bounds/pointer checks, so each contract carries 'and executes without panic or UB for every input satisfying the representation invariant', which update/new preserve (so any call SEQUENCE stays inside the proved preconditions); invariant!() sites are obligations in the safe rows and must be unreachable in the 'unsafe' rows; an adversarial Read implementation may only cause a clean panic; SIMD loads are pointer-checked; from_utf8_unchecked's ASCII precondition is asserted.",
        "Outside CBMC's model: data races, uninitialised padding, aliasing-model violations, anything inside hex_simd. The defect found here (unreachable_unchecked reachable through a misreporting reader under feature 'unsafe') was repaired in /repo 7de7b04.",
        "DESIGN.md section 3 C17, section 5")
    add("C18", BOTH,
        "Frame condition 'the global allocator is never entered': in every full-domain core-operation obligation (new, processed_len, finalize, parse accept/reject, TryFrom, store_into_*, compare, accessors, dispatchers) alloc::alloc::{alloc, alloc_zeroed, realloc} are stubbed by panicking functions; update: its extracted body calls only allocation-free leaves and core slice copies (Verus call graph) plus a bounded Kani run; the no_std / no-alloc builds are build obligations (rustc is the checker).",
        "hex_simd calls (simd row) are assumed allocation-free. The bounded update run and the build obligations are not counted as discharged solver obligations.",
        "DESIGN.md section 3 C18")
