#!/bin/sh
# calibration sweep: every property's check in the given tier, sequentially
tier=${1:-quick}
for p in C01 C02 C03 C04 C05 C06 C07 C08 C09 C10 C11 C12 C13 C14 C15 C16 C17 C18; do
  s=$(date +%s)
  ./check $p --tier $tier > sweep_$p.out 2> sweep_$p.err; rc=$?
  e=$(date +%s)
  echo "$p rc=$rc secs=$((e-s)) $(grep -E '^(OK|VIOLATION|UNDECIDED|KNOWN)' sweep_$p.out | head -3 | tr '\n' ';' | cut -c1-600)"
done
