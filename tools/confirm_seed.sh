#!/bin/sh
# tools/confirm_seed.sh <ID> [extra cargo args for the demo]  -- confirm a sub-agent's seeded change in its scratch worktree
ID=$1; shift
WT=${WTPREFIX:-/tmp/wt-}$ID
cd $WT || exit 2
export CARGO_NET_OFFLINE=true
DEMO=$(ls fast-tlsh/tests/demo_*.rs 2>/dev/null | head -1)
NAME=$(basename "$DEMO" .rs)
echo "== patch"; git diff --stat -- fast-tlsh/src | tail -3
git diff -- fast-tlsh/src > /tmp/seed_$ID.diff
cmp -s /tmp/seed_$ID.diff patch.diff && echo "patch.diff matches working tree" || echo "NOTE: patch.diff differs from working tree diff (using working tree diff)"
echo "== (a) existing suite WITH the change (demo moved aside)"
mkdir -p /tmp/seed_aside_$ID; [ -n "$DEMO" ] && mv "$DEMO" /tmp/seed_aside_$ID/
cargo test --workspace --offline 2>&1 | grep -E "^test result|FAILED|panicked|error(\[|:)" | head -8
[ -n "$DEMO" ] && mv /tmp/seed_aside_$ID/$NAME.rs "$DEMO"
echo "== (b) demo WITH the change (must fail)"
cargo test --offline -p fast-tlsh --test $NAME "$@" 2>&1 | grep -E "^test result|FAILED|error(\[|:)" | head -5
echo "== (c) demo WITHOUT the change (must pass)"
git apply -R /tmp/seed_$ID.diff && cargo test --offline -p fast-tlsh --test $NAME "$@" 2>&1 | grep -E "^test result|FAILED|error(\[|:)" | head -5
git apply /tmp/seed_$ID.diff
git diff --stat -- fast-tlsh/src | tail -1
