//! Native validation of the ASSUMED intrinsic contracts (the models in verif-support) against the
//! real instructions on this CPU: exhaustive per lane where feasible, seeded random otherwise.
//! Not a proof; run by setup.sh; an intrinsic whose CPU feature is missing is reported as skipped.
#[cfg(target_arch = "x86_64")]
use core::arch::x86_64::*;
use verif_support::{x86, x86_shuffle};

struct Rng(u64);
impl Rng {
    fn next(&mut self) -> u64 { self.0 ^= self.0 << 13; self.0 ^= self.0 >> 7; self.0 ^= self.0 << 17; self.0 }
    fn b16(&mut self) -> [u8; 16] { let mut o = [0u8; 16]; for c in o.chunks_mut(8) { c.copy_from_slice(&self.next().to_le_bytes()); } o }
    fn b32(&mut self) -> [u8; 32] { let mut o = [0u8; 32]; for c in o.chunks_mut(8) { c.copy_from_slice(&self.next().to_le_bytes()); } o }
}
unsafe fn v128(b: [u8; 16]) -> __m128i { core::mem::transmute(b) }
unsafe fn v256(b: [u8; 32]) -> __m256i { core::mem::transmute(b) }
unsafe fn b128(v: __m128i) -> [u8; 16] { core::mem::transmute(v) }
unsafe fn b256(v: __m256i) -> [u8; 32] { core::mem::transmute(v) }

const EDGE: [u32; 10] = [0, 1, 2, 0x7fff_ffff, 0x8000_0000, 0x8000_0001, 0xffff_fffe, 0xffff_ffff, 0x0101_0101, 0x1818_1818];

#[target_feature(enable = "sse2,ssse3,sse4.1")]
unsafe fn check128(rng: &mut Rng, n: usize) -> usize {
    let mut bad = 0;
    let mut one = |a: [u8; 16], b: [u8; 16]| {
        if b128(_mm_add_epi32(v128(a), v128(b))) != b128(x86::mm_add_epi32(v128(a), v128(b))) { bad += 1; }
        if b128(_mm_sub_epi32(v128(a), v128(b))) != b128(x86::mm_sub_epi32(v128(a), v128(b))) { bad += 1; }
        if b128(_mm_mullo_epi32(v128(a), v128(b))) != b128(x86::mm_mullo_epi32(v128(a), v128(b))) { bad += 1; }
        if b128(_mm_add_epi16(v128(a), v128(b))) != b128(x86::mm_add_epi16(v128(a), v128(b))) { bad += 1; }
        if b128(_mm_packs_epi16(v128(a), v128(b))) != b128(x86_shuffle::mm_packs_epi16(v128(a), v128(b))) { bad += 1; }
        if b128(_mm_shuffle_epi8(v128(a), v128(b))) != b128(x86_shuffle::mm_shuffle_epi8(v128(a), v128(b))) { bad += 1; }
    };
    for &x in &EDGE { for &y in &EDGE {
        let mut a = [0u8; 16]; let mut b = [0u8; 16];
        for k in 0..4 { a[4 * k..4 * k + 4].copy_from_slice(&x.rotate_left(k as u32).to_le_bytes()); b[4 * k..4 * k + 4].copy_from_slice(&y.rotate_right(k as u32).to_le_bytes()); }
        one(a, b);
    } }
    // exhaustive: every 16-bit lane value for the saturating pack, every control byte for pshufb
    for v in 0..=u16::MAX { let mut a = [0u8; 16]; a[0..2].copy_from_slice(&v.to_le_bytes()); a[14..16].copy_from_slice(&v.to_le_bytes()); one(a, a); }
    for c in 0..=255u8 { let a = rng.b16(); one(a, [c; 16]); }
    for _ in 0..n { let (a, b) = (rng.b16(), rng.b16()); one(a, b); }
    bad
}
#[target_feature(enable = "avx2")]
unsafe fn check256(rng: &mut Rng, n: usize) -> usize {
    let mut bad = 0;
    let mut one = |a: [u8; 32], b: [u8; 32]| {
        if b256(_mm256_add_epi32(v256(a), v256(b))) != b256(x86::mm256_add_epi32(v256(a), v256(b))) { bad += 1; }
        if b256(_mm256_sub_epi32(v256(a), v256(b))) != b256(x86::mm256_sub_epi32(v256(a), v256(b))) { bad += 1; }
        if b256(_mm256_mullo_epi32(v256(a), v256(b))) != b256(x86::mm256_mullo_epi32(v256(a), v256(b))) { bad += 1; }
        if b256(_mm256_shuffle_epi8(v256(a), v256(b))) != b256(x86_shuffle::mm256_shuffle_epi8(v256(a), v256(b))) { bad += 1; }
    };
    for &x in &EDGE { for &y in &EDGE {
        let mut a = [0u8; 32]; let mut b = [0u8; 32];
        for k in 0..8 { a[4 * k..4 * k + 4].copy_from_slice(&x.rotate_left(k as u32).to_le_bytes()); b[4 * k..4 * k + 4].copy_from_slice(&y.rotate_right(k as u32).to_le_bytes()); }
        one(a, b);
    } }
    for c in 0..=255u8 { let a = rng.b32(); one(a, [c; 32]); }
    for _ in 0..n { let (a, b) = (rng.b32(), rng.b32()); one(a, b); }
    bad
}

fn main() {
    let seed: u64 = std::env::var("VERIF_SEED").ok().and_then(|s| s.parse().ok()).unwrap_or(0);
    let mut rng = Rng(0x9E37_79B9_7F4A_7C15 ^ seed.wrapping_mul(0x2545_F491_4F6C_DD1D) | 1);
    let n = 2_000_000;
    let mut bad = 0;
    if is_x86_feature_detected!("sse2") && is_x86_feature_detected!("ssse3") && is_x86_feature_detected!("sse4.1") {
        bad += unsafe { check128(&mut rng, n) };
        println!("128-bit models (_mm_add_epi32, _mm_sub_epi32, _mm_mullo_epi32, _mm_add_epi16, _mm_packs_epi16, _mm_shuffle_epi8): validated on edge grid + exhaustive lanes/control bytes + {} random pairs", n);
    } else { println!("128-bit models: SKIPPED (CPU lacks sse2/ssse3/sse4.1)"); }
    if is_x86_feature_detected!("avx2") {
        bad += unsafe { check256(&mut rng, n) };
        println!("256-bit models (_mm256_add_epi32, _mm256_sub_epi32, _mm256_mullo_epi32, _mm256_shuffle_epi8): validated on edge grid + all control bytes + {} random pairs", n);
    } else { println!("256-bit models: SKIPPED (CPU lacks avx2)"); }
    if bad > 0 { println!("MODEL MISMATCH: {} disagreements with the real instructions", bad); std::process::exit(1); }
    println!("intrinsic models agree with the real instructions on this CPU");
}
