//! Contracts: pearson::{init, update, update_double, final_256, final_48, tlsh_b_mapping_256, tlsh_b_mapping_48}
#![allow(missing_docs)]
use crate::verif_spec::*;

// @ob id=pearson.update.eq_ref props=C01,C07,C15 rows=plain kind=HC fn=pearson::{init,update,final_256,final_48} domain="all 2^16 (state,value)"
#[kani::proof]
fn ob_update() {
    let s: u8 = kani::any();
    let v: u8 = kani::any();
    assert!(super::update(s, v) == ref_p(s ^ v), "pearson.update.eq_ref");
    assert!(super::init(v) == ref_p(v), "pearson.init.eq_ref");
    assert!(super::final_256(s, v) == ref_p(s ^ v), "pearson.final_256.eq_ref");
    assert!(super::final_48(s, v) == ref_fold48(ref_p(s ^ v)), "pearson.final_48.eq_ref");
    assert!(super::final_48(s, v) <= 48, "pearson.final_48.range");
    kani::cover!(super::final_48(s, v) == 48);
}

// @ob id=pearson.update_double.eq_ref props=C01,C07 rows=tables,plain quick=tables quick.C07=tables,plain kind=HC fn=pearson::update_double domain="all 2^24 (state,b1,b2); 64 KiB double table is rustc-evaluated data"
#[kani::proof]
fn ob_update_double() {
    let s: u8 = kani::any();
    let b1: u8 = kani::any();
    let b2: u8 = kani::any();
    assert!(super::update_double(s, b1, b2) == ref_p(ref_p(s ^ b1) ^ b2), "pearson.update_double.eq_ref");
}

// @ob id=pearson.b_mapping_256.eq_ref props=C01,C07 rows=tables,plain quick=tables quick.C07=tables,plain kind=HC fn=pearson::tlsh_b_mapping_256 domain="all 2^32 (salt,b1,b2,b3)"
#[kani::proof]
fn ob_b_mapping_256() {
    let (a, b, c, d): (u8, u8, u8, u8) = kani::any();
    assert!(super::tlsh_b_mapping_256(a, b, c, d) == ref_b_mapping_256(a, b, c, d), "pearson.b_mapping_256.eq_ref");
}

// @ob id=pearson.b_mapping_48.eq_ref props=C01,C07,C15 rows=tables,plain quick=tables quick.C07=tables,plain kind=HC fn=pearson::tlsh_b_mapping_48 domain="all 2^32 (salt,b1,b2,b3)"
#[kani::proof]
fn ob_b_mapping_48() {
    let (a, b, c, d): (u8, u8, u8, u8) = kani::any();
    let r = super::tlsh_b_mapping_48(a, b, c, d);
    assert!(r == ref_b_mapping_48(a, b, c, d), "pearson.b_mapping_48.eq_ref");
    assert!(r <= 48, "pearson.b_mapping_48.range");
}

// Structural pins of the frozen reference table that do not depend on the crate.
// @ob id=spec.pearson.permutation props=C01 rows=plain kind=HC fn=spec::REF_PEARSON domain="all index pairs (witness form)"
#[kani::proof]
fn ob_spec_pearson_permutation() {
    let i: u8 = kani::any();
    let j: u8 = kani::any();
    kani::assume(i != j);
    assert!(REF_PEARSON[i as usize] != REF_PEARSON[j as usize], "spec.pearson.permutation");
    assert!(REF_PEARSON[0] == 1 && REF_PEARSON[1] == 87 && REF_PEARSON[2] == 49 && REF_PEARSON[3] == 12, "spec.pearson.head");
    assert!(REF_PEARSON[255] == 209, "spec.pearson.tail");
}
