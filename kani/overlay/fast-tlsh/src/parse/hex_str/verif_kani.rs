//! Contracts: parse::hex_str::{decode_1, decode_rev_1, decode_array, decode_rev_array,
//! encode_rev_1, encode_array, encode_rev_array} in every table configuration.
//! The models in crate::verif_models are these contracts in executable form; each
//! obligation below proves "real function == model" over the full input domain.
// decode_1/decode_array/encode_array are configured out when hex_simd takes over (simd rows);
// the rev variants are the same code in every row and are proved in the non-simd rows.
#![cfg(not(any(feature = "opt-simd-parse-hex", feature = "opt-simd-convert-hex")))]
#![allow(missing_docs, unused_imports)]
use crate::verif_models::*;
use crate::verif_spec::*;

// @ob id=hex.decode_1.eq_model props=C05,C04,C07,C17 rows=plain,lowmem-a,lowmem-b,lowmem-c quick=plain,lowmem-a,lowmem-b,lowmem-c kind=HC fn=parse::hex_str::{decode_1,decode_rev_1} domain="all inputs of length 0..=3 (every byte value)"
#[kani::proof]
fn ob_decode_1() {
    let buf: [u8; 3] = kani::any();
    let n: usize = kani::any();
    kani::assume(n <= 3);
    assert!(super::decode_1(&buf[..n]) == model_decode_1(&buf[..n]), "hex.decode_1.eq_model");
    assert!(super::decode_rev_1(&buf[..n]) == model_decode_rev_1(&buf[..n]), "hex.decode_rev_1.eq_model");
    kani::cover!(super::decode_1(&buf[..n]).is_some());
}

fn check_decode_array<const N: usize, const M: usize>(rev: bool) {
    let src: [u8; M] = kani::any();     // M = 2N + 2
    let n: usize = kani::any();
    kani::assume(n <= M);
    let mut d1 = [0u8; N];
    let mut d2 = [0u8; N];
    let (r1, r2) = if rev {
        (super::decode_rev_array(&mut d1, &src[..n]), model_decode_rev_array(&mut d2, &src[..n]))
    } else {
        (super::decode_array(&mut d1, &src[..n]), model_decode_array(&mut d2, &src[..n]))
    };
    assert!(r1 == r2, "hex.decode_array.accept_iff");
    if r1 {
        let k: usize = kani::any();
        kani::assume(k < N);
        assert!(d1[k] == d2[k], "hex.decode_array.value");
    }
    kani::cover!(r1);
    kani::cover!(!r1 && n == 2 * N);
}
// @ob id=hex.decode_rev_array.eq_model props=C05,C04,C07,C17 rows=plain,lowmem-a,lowmem-b,lowmem-c quick=plain,lowmem-a,lowmem-b,lowmem-c kind=HC fn=parse::hex_str::decode_rev_array<{1,3}> domain="all inputs of length 0..=2N+2"
#[kani::proof]
#[kani::unwind(5)]
fn ob_decode_rev_array() { check_decode_array::<1, 4>(true); check_decode_array::<3, 8>(true); }
// @ob id=hex.decode_array.eq_model.12 props=C05,C04,C07,C17 rows=plain,lowmem-a,lowmem-b,lowmem-c quick=plain,lowmem-a,lowmem-b,lowmem-c kind=HC fn=parse::hex_str::decode_array<12> domain="all inputs of length 0..=26"
#[kani::proof]
#[kani::unwind(14)]
fn ob_decode_array_12() { check_decode_array::<12, 26>(false); }
// @ob id=hex.decode_array.eq_model.32 props=C05,C04,C07,C17 rows=plain,lowmem-a,lowmem-b,lowmem-c quick=plain quick.C07=plain,lowmem-a,lowmem-b,lowmem-c kind=HC fn=parse::hex_str::decode_array<32> domain="all inputs of length 0..=66"
#[kani::proof]
#[kani::unwind(34)]
fn ob_decode_array_32() { check_decode_array::<32, 66>(false); }
// @ob id=hex.decode_array.eq_model.64 props=C05,C04,C07,C17 rows=plain,lowmem-a,lowmem-b,lowmem-c quick=plain kind=HC fn=parse::hex_str::decode_array<64> domain="all inputs of length 0..=130"
#[kani::proof]
#[kani::unwind(66)]
fn ob_decode_array_64() { check_decode_array::<64, 130>(false); }

// @ob id=hex.encode_rev_1.eq_model props=C04,C14,C07,C17 rows=plain,lowmem-a,lowmem-b quick=plain,lowmem-a,lowmem-b kind=HC fn=parse::hex_str::encode_rev_1 domain="all values x destination length 2..=6 with arbitrary content"
#[kani::proof]
fn ob_encode_rev_1() {
    let mut a: [u8; 6] = kani::any();
    let mut b = a;
    let n: usize = kani::any();
    kani::assume(n >= 2 && n <= 6);
    let v: u8 = kani::any();
    super::encode_rev_1(&mut a[..n], v);
    model_encode_rev_1(&mut b[..n], v);
    let k: usize = kani::any();
    kani::assume(k < 6);
    assert!(a[k] == b[k], "hex.encode_rev_1.eq_model");
}

/// Destination lengths are enumerated *concretely* (every length in 2N..=2N+8):
/// a symbolic slice length makes the same proof 60x slower (measured 10 s vs 650 s
/// for N = 32) without covering more.
fn check_encode_array<const N: usize, const M: usize>(rev: bool) {
    let mut n = 2 * N;          // precondition: the destination holds the text
    while n <= M {              // M = 2N + 8
        check_encode_array_at::<N, M>(rev, n);
        n += 1;
    }
}
fn check_encode_array_at<const N: usize, const M: usize>(rev: bool, n: usize) {
    let mut a: [u8; M] = kani::any();
    let mut b = a;
    let src: [u8; N] = kani::any();
    if rev {
        super::encode_rev_array(&mut a[..n], &src);
        model_encode_rev_array(&mut b[..n], &src);
    } else {
        encode_array_real(&mut a[..n], &src);
        model_encode_array(&mut b[..n], &src);
    }
    let k: usize = kani::any();
    kani::assume(k < M);
    assert!(a[k] == b[k], "hex.encode_array.eq_model (content and frame)");
}
#[cfg(not(feature = "opt-simd-convert-hex"))]
fn encode_array_real<const N: usize>(dst: &mut [u8], src: &[u8; N]) { super::encode_array(dst, src) }
#[cfg(feature = "opt-simd-convert-hex")]
fn encode_array_real<const N: usize>(dst: &mut [u8], src: &[u8; N]) { model_encode_array(dst, src) }

// @ob id=hex.encode_rev_array.eq_model props=C04,C14,C07,C17 rows=plain,lowmem-a,lowmem-b quick=plain,lowmem-a,lowmem-b kind=HC fn=parse::hex_str::encode_rev_array<{1,3}> domain="all sources x destination length 2N..=2N+8 with arbitrary content"
#[kani::proof]
#[kani::unwind(10)]
fn ob_encode_rev_array() { check_encode_array::<1, 10>(true); check_encode_array::<3, 14>(true); }
// @ob id=hex.encode_array.eq_model.12 props=C04,C14,C07,C17 rows=plain,lowmem-b quick=plain,lowmem-b kind=HC fn=parse::hex_str::encode_array<12> domain="all sources x destination length 24..=32"
#[kani::proof]
#[kani::unwind(18)]
fn ob_encode_array_12() { check_encode_array::<12, 32>(false); }
// @ob id=hex.encode_array.eq_model.32 props=C04,C14,C07,C17 rows=plain,lowmem-b quick=plain,lowmem-b kind=HC fn=parse::hex_str::encode_array<32> domain="all sources x destination length 64..=72"
#[kani::proof]
#[kani::unwind(38)]
fn ob_encode_array_32() { check_encode_array::<32, 72>(false); }
// @ob id=hex.encode_array.eq_model.64 props=C04,C14,C07,C17 rows=plain,lowmem-b quick=plain kind=HC fn=parse::hex_str::encode_array<64> domain="all sources x destination length 128..=136"
#[kani::proof]
#[kani::unwind(70)]
fn ob_encode_array_64() { check_encode_array::<64, 136>(false); }
