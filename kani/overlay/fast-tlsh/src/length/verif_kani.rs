//! Contracts: FuzzyHashLengthEncoding::{new, range, is_valid, try_from, value}, DataLengthValidity, length limits
#![allow(missing_docs)]
use super::*;
use crate::verif_spec::*;

// @ob id=length.new.eq_ref props=C09,C01,C11,C17 rows=plain,unsafe quick=plain quick.C17=plain,unsafe kind=HC fn=length::FuzzyHashLengthEncoding::new domain="all 2^32 lengths x witness code; includes the three invariant!() sites and core binary_search"
#[kani::proof]
#[kani::unwind(12)]
fn ob_new() {
    let len: u32 = kani::any();
    let c: usize = kani::any();
    kani::assume(c < 170);
    let r = FuzzyHashLengthEncoding::new(len);
    assert!(r.is_some() == (len <= REF_MAX_LEN), "length.new.some_iff_le_max");
    if let Some(e) = r {
        assert!((e.value() as usize) < 170, "length.new.code_lt_170");
        assert!((e.value() as usize == c) == ref_is_length_code(len, c), "length.new.eq_ref");
        assert!(e.is_valid(), "length.new.valid");
    }
    let t = FuzzyHashLengthEncoding::try_from(len);
    match (t, r) {
        (Ok(a), Some(b)) => assert!(a.value() == b.value(), "length.try_from.eq_new"),
        (Err(e), None) => assert!(e == crate::errors::ParseError::LengthIsTooLarge, "length.try_from.err"),
        _ => assert!(false, "length.try_from.shape"),
    }
    kani::cover!(len == REF_MAX_LEN);
    kani::cover!(len > REF_MAX_LEN);
}

// @ob id=length.range.eq_ref props=C09 rows=plain kind=HC fn=length::FuzzyHashLengthEncoding::{range,is_valid,from_raw,value} domain="all 256 codes"
#[kani::proof]
fn ob_range() {
    let c: u8 = kani::any();
    let e = FuzzyHashLengthEncoding::from_raw(c);
    assert!(e.value() == c, "length.from_raw.value");
    assert!(e.is_valid() == (c < 170), "length.is_valid.eq_ref");
    match (e.range(), ref_range(c)) {
        (Some(r), Some((lo, hi))) => assert!(*r.start() == lo && *r.end() == hi, "length.range.eq_ref"),
        (None, None) => {}
        _ => assert!(false, "length.range.some_iff_valid"),
    }
    assert!(e.range().is_some() == e.is_valid(), "length.range.some_iff_valid");
}

// Spec lemma: the table is strictly increasing, so codes are monotone in len and
// ranges tile 0..=MAX without gap or overlap; len in range(c) <=> code(len) = c.
// @ob id=spec.topval.laws props=C09 rows=plain kind=HC fn=spec::REF_TOPVAL domain="all index pairs, all u32 lengths (witness form)"
#[kani::proof]
fn ob_spec_topval() {
    let i: usize = kani::any();
    kani::assume(i < 169);
    assert!(REF_TOPVAL[i] < REF_TOPVAL[i + 1], "spec.topval.strictly_increasing");
    assert!(REF_TOPVAL[169] == REF_MAX_LEN && REF_TOPVAL[0] == 1, "spec.topval.ends");
    // tiling: range(i+1) starts right after range(i) ends
    let (lo1, _hi1) = ref_range((i + 1) as u8).unwrap();
    let (lo0, hi0) = ref_range(i as u8).unwrap();
    assert!(lo1 == hi0 + 1 && lo0 <= hi0, "spec.range.tiles");
    assert!(ref_range(0).unwrap().0 == 0 && ref_range(169).unwrap().1 == REF_MAX_LEN, "spec.range.ends");
    // membership <=> code; monotone
    let len: u32 = kani::any();
    let c: usize = kani::any();
    kani::assume(c < 170);
    let (lo, hi) = ref_range(c as u8).unwrap();
    assert!((lo <= len && len <= hi) == ref_is_length_code(len, c), "spec.range.membership_iff_code");
    let len2: u32 = kani::any();
    let c2: usize = kani::any();
    kani::assume(c2 < 170 && len <= len2 && ref_is_length_code(len, c) && ref_is_length_code(len2, c2));
    assert!(c <= c2, "spec.code.monotone");
}

// first 22 entries follow the published closed forms
// @ob id=spec.topval.closed_forms props=C09 rows=plain kind=HC fn=spec::REF_TOPVAL domain="entries 0..=21"
#[kani::proof]
#[kani::unwind(24)]
fn ob_spec_topval_closed() {
    // floor(1.5^(i+1)) via exact rationals: 3^(i+1) / 2^(i+1)
    let mut i = 0u32;
    let mut num: u64 = 3;
    let mut den: u64 = 2;
    while i < 16 {
        assert!(REF_TOPVAL[i as usize] as u64 == num / den, "spec.topval.1_5_pow");
        num *= 3; den *= 2; i += 1;
    }
    // floor(657 * 1.3^k), k = 1..=6 : 657 * 13^k / 10^k
    let mut k = 1u32;
    let mut n: u64 = 657 * 13;
    let mut d: u64 = 10;
    while k <= 6 {
        assert!(REF_TOPVAL[(15 + k) as usize] as u64 == n / d, "spec.topval.1_3_pow");
        n *= 13; d *= 10; k += 1;
    }
}

fn check_validity<const N: usize>()
where
    crate::buckets::constrained::FuzzyHashBucketsInfo<N>: crate::buckets::constrained::FuzzyHashBucketMapper,
    LengthProcessingInfo<N>: ConstrainedLengthProcessingInfo,
{
    let len: u32 = kani::any();
    let v = DataLengthValidity::new::<N>(len);
    let code = match v {
        DataLengthValidity::TooSmall => 0u8,
        DataLengthValidity::ValidWhenOptimistic => 1,
        DataLengthValidity::Valid => 2,
        DataLengthValidity::TooLarge => 3,
    };
    assert!(code == ref_validity(N, len), "validity.new.eq_ref");
    assert!(v.is_err() == (code == 0 || code == 3), "validity.is_err.eq_ref");
    assert!(v.is_err_on(DataLengthProcessingMode::Optimistic) == ref_validity_is_err_on(code, false), "validity.is_err_on.optimistic");
    assert!(v.is_err_on(DataLengthProcessingMode::Conservative) == ref_validity_is_err_on(code, true), "validity.is_err_on.conservative");
    assert!(LengthProcessingInfo::<N>::MIN == ref_min_len(N, false), "limits.MIN");
    assert!(LengthProcessingInfo::<N>::MIN_CONSERVATIVE == ref_min_len(N, true), "limits.MIN_CONSERVATIVE");
    assert!(LengthProcessingInfo::<N>::MAX == REF_MAX_LEN && super::MAX == REF_MAX_LEN, "limits.MAX");
    kani::cover!(N == 48 || code == 1);
    kani::cover!(code == 3);
}
// @ob id=validity.eq_ref props=C10,C01,C11 rows=plain kind=HC fn=length::DataLengthValidity::{new,is_err,is_err_on} domain="all 2^32 lengths x {48,128,256} x both modes"
#[kani::proof]
fn ob_validity() { check_validity::<48>(); check_validity::<128>(); check_validity::<256>(); }
