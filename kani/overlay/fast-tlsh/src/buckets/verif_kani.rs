//! Contracts: FuzzyHashBucketsInfo<N>::{b_mapping, MIN_NONZERO_BUCKETS}, FuzzyHashBucketsData<N>::{new, data, increment}
#![allow(missing_docs)]
use super::constrained::{FuzzyHashBucketMapper, FuzzyHashBucketsInfo};
use super::FuzzyHashBucketsData;
use crate::verif_spec::*;

fn check_b_mapping<const N: usize>()
where
    FuzzyHashBucketsInfo<N>: FuzzyHashBucketMapper,
{
    let (a, b, c, d): (u8, u8, u8, u8) = kani::any();
    let r = FuzzyHashBucketsInfo::<N>::b_mapping(a, b, c, d);
    assert!(r == ref_b_mapping(N, a, b, c, d), "buckets.b_mapping.eq_ref");
    assert!(FuzzyHashBucketsInfo::<N>::MIN_NONZERO_BUCKETS == ref_min_nonzero(N), "buckets.MIN_NONZERO_BUCKETS");
    // IS_B_MAPPING_CONSTRAINED_WITHIN_BUCKETS may only be claimed when true
    if FuzzyHashBucketsInfo::<N>::IS_B_MAPPING_CONSTRAINED_WITHIN_BUCKETS {
        assert!((r as usize) < N, "buckets.b_mapping.constrained");
    }
}
// @ob id=buckets.b_mapping.eq_ref.48 props=C01,C07 rows=tables,plain quick=tables kind=HC fn=buckets::FuzzyHashBucketsInfo<48>::b_mapping domain="all 2^32"
#[kani::proof]
fn ob_b_mapping_48() { check_b_mapping::<48>() }
// @ob id=buckets.b_mapping.eq_ref.128 props=C01,C07 rows=tables,plain quick=tables kind=HC fn=buckets::FuzzyHashBucketsInfo<128>::b_mapping domain="all 2^32"
#[kani::proof]
fn ob_b_mapping_128() { check_b_mapping::<128>() }
// @ob id=buckets.b_mapping.eq_ref.256 props=C01,C07 rows=tables,plain quick=tables kind=HC fn=buckets::FuzzyHashBucketsInfo<256>::b_mapping domain="all 2^32"
#[kani::proof]
fn ob_b_mapping_256() { check_b_mapping::<256>() }

/// increment(i): the *effective* bucket i (i < N) gains 1 modulo 2^32, every
/// other effective bucket is unchanged; an index >= N never changes an
/// effective bucket and never goes out of bounds (both memory layouts).
fn check_increment<const N: usize>()
where
    FuzzyHashBucketsInfo<N>: FuzzyHashBucketMapper,
{
    let mut b = FuzzyHashBucketsData::<N> { buckets: kani::any() };
    let idx: u8 = kani::any();
    // only indices b_mapping can produce: < 256 for N in {128,256}; <= 48 for N = 48
    kani::assume(N != 48 || idx <= 48);
    let k: usize = kani::any();
    kani::assume(k < N);
    let before = b.data()[k];
    assert!(b.data().len() == N, "buckets.data.len");
    b.increment(idx);
    let after = b.data()[k];
    if k == idx as usize {
        assert!(after == before.wrapping_add(1), "buckets.increment.target");
    } else {
        assert!(after == before, "buckets.increment.frame");
    }
    kani::cover!(k == idx as usize && before == u32::MAX, "wrap");
    kani::cover!(N == 256 || idx as usize >= N, "outlier index");
}
// @ob id=buckets.increment.48 props=C01,C07,C17 rows=plain,lowmem-a quick=plain quick.C07=plain,lowmem-a kind=HC fn=buckets::FuzzyHashBucketsData<48>::increment domain="all bucket arrays x all indices b_mapping can yield x witness bucket"
#[kani::proof]
fn ob_increment_48() { check_increment::<48>() }
// @ob id=buckets.increment.128 props=C01,C07,C17 rows=plain,lowmem-a quick=plain quick.C07=plain,lowmem-a kind=HC fn=buckets::FuzzyHashBucketsData<128>::increment domain="all bucket arrays x all u8 indices x witness bucket"
#[kani::proof]
fn ob_increment_128() { check_increment::<128>() }
// @ob id=buckets.increment.256 props=C01,C07,C17 rows=plain,lowmem-a quick=plain quick.C07=plain,lowmem-a kind=HC fn=buckets::FuzzyHashBucketsData<256>::increment domain="all bucket arrays x all u8 indices x witness bucket"
#[kani::proof]
fn ob_increment_256() { check_increment::<256>() }

fn check_new<const N: usize>()
where
    FuzzyHashBucketsInfo<N>: FuzzyHashBucketMapper,
{
    let b = FuzzyHashBucketsData::<N>::new();
    let k: usize = kani::any();
    kani::assume(k < N);
    assert!(b.data().len() == N && b.data()[k] == 0, "buckets.new.zero");
}
// @ob id=buckets.new.zero props=C01,C18 rows=plain,lowmem-a quick=plain kind=HC fn=buckets::FuzzyHashBucketsData<N>::new domain="N in {48,128,256}, witness bucket"
#[kani::proof]
fn ob_new() { check_new::<48>(); check_new::<128>(); check_new::<256>(); }
