//! Contracts: bucket_aggregation::naive::{get_quartile, aggregate_*} and the run-time
//! dispatchers aggregate_{48,128,256} (every detection outcome; back ends by their own
//! proved contracts, see x86_*/verif_kani.rs).
#![allow(missing_docs, unused_imports, clippy::all)]
#![cfg_attr(feature = "simd-per-arch", allow(unsafe_code))]
use crate::verif_spec::*;
use verif_support::{rec_get, rec_inc, rec_set};

/// reference body byte v of an N-bucket aggregation: bucket i sits in byte N/4-1-i/4, bits 2(i%4)
pub(crate) fn ref_body_byte(b: &[u32], v: usize, q1: u32, q2: u32, q3: u32) -> u8 {
    let base = 4 * (b.len() / 4 - 1 - v);
    ref_dibit_class(b[base], q1, q2, q3) | ref_dibit_class(b[base + 1], q1, q2, q3) << 2
        | ref_dibit_class(b[base + 2], q1, q2, q3) << 4 | ref_dibit_class(b[base + 3], q1, q2, q3) << 6
}
/// functional contract of every aggregate_N (naive, SSE2, SSSE3, AVX2, dispatcher)
pub(crate) fn model_aggregate<const B: usize, const N: usize>(out: &mut [u8; B], buckets: &[u32; N], q1: u32, q2: u32, q3: u32) {
    let mut v = 0;
    while v < B { out[v] = ref_body_byte(buckets, v, q1, q2, q3); v += 1; }
}

// @ob id=agg.naive.get_quartile.eq_ref props=C01,C07 rows=plain kind=HC fn=generate::bucket_aggregation::naive::get_quartile domain="all (value, q1 <= q2 <= q3): 2^128"
#[kani::proof]
fn ob_get_quartile() {
    let (v, q1, q2, q3): (u32, u32, u32, u32) = kani::any();
    kani::assume(q1 <= q2 && q2 <= q3);
    assert!(super::naive::get_quartile(v, q1, q2, q3) == ref_dibit_class(v, q1, q2, q3), "agg.naive.get_quartile.eq_ref");
    kani::cover!(v == q1 && q1 < q2);
}

fn check_naive<const B: usize, const N: usize>(f: fn(&mut [u8; B], &[u32; N], u32, u32, u32)) {
    let b: [u32; N] = kani::any();
    let (q1, q2, q3): (u32, u32, u32) = kani::any();
    kani::assume(q1 <= q2 && q2 <= q3);
    let mut out = [0u8; B];
    f(&mut out, &b, q1, q2, q3);
    let i: usize = kani::any();
    kani::assume(i < N);
    assert!((out[B - 1 - i / 4] >> (2 * (i % 4))) & 3 == ref_dibit_class(b[i], q1, q2, q3), "agg.bucket_i_is_dibit_2(i%4)_of_byte_B-1-i/4");
}
// @ob id=agg.naive.aggregate.48 props=C01,C07 rows=plain kind=HC fn=generate::bucket_aggregation::naive::aggregate_48 domain="all bucket arrays x all ordered quartiles x witness bucket"
#[kani::proof]
#[kani::unwind(14)]
fn ob_naive_48() { check_naive::<12, 48>(super::naive::aggregate_48) }
// @ob id=agg.naive.aggregate.128 props=C01,C07 rows=plain kind=HC fn=generate::bucket_aggregation::naive::aggregate_128 domain="all bucket arrays x all ordered quartiles x witness bucket"
#[kani::proof]
#[kani::unwind(34)]
fn ob_naive_128() { check_naive::<32, 128>(super::naive::aggregate_128) }
// @ob id=agg.naive.aggregate.256 props=C01,C07 rows=plain quick=- kind=HC fn=generate::bucket_aggregation::naive::aggregate_256 domain="all bucket arrays x all ordered quartiles x witness bucket"
#[kani::proof]
#[kani::unwind(66)]
fn ob_naive_256() { check_naive::<64, 256>(super::naive::aggregate_256) }

// ---- dispatchers (simd row): every detection outcome, back ends replaced by their contract
#[cfg(all(feature = "simd-per-arch", feature = "opt-simd-bucket-aggregation", feature = "detect-features"))]
mod dispatch {
    use super::*;
    macro_rules! backend_models {
        ($($m:ident = ($b:literal, $n:literal);)*) => { $(
            pub(crate) unsafe fn $m(out: &mut [u8; $b], buckets: &[u32; $n], q1: u32, q2: u32, q3: u32) { rec_inc(10); model_aggregate(out, buckets, q1, q2, q3) }
        )* }
    }
    backend_models! { m48 = (12, 48); m128 = (32, 128); m256 = (64, 256); }
    pub(crate) fn n48(out: &mut [u8; 12], b: &[u32; 48], q1: u32, q2: u32, q3: u32) { rec_inc(10); model_aggregate(out, b, q1, q2, q3) }
    pub(crate) fn n128(out: &mut [u8; 32], b: &[u32; 128], q1: u32, q2: u32, q3: u32) { rec_inc(10); model_aggregate(out, b, q1, q2, q3) }
    pub(crate) fn n256(out: &mut [u8; 64], b: &[u32; 256], q1: u32, q2: u32, q3: u32) { rec_inc(10); model_aggregate(out, b, q1, q2, q3) }

    fn check_dispatch<const B: usize, const N: usize>(f: fn(&mut [u8; B], &[u32; N], u32, u32, u32)) {
        rec_set(62, kani::any());
        rec_set(63, kani::any());
        let b: [u32; N] = kani::any();
        let (q1, q2, q3): (u32, u32, u32) = kani::any();
        kani::assume(q1 <= q2 && q2 <= q3);
        let mut out = [0u8; B];
        f(&mut out, &b, q1, q2, q3);
        assert!(rec_get(10) == 1, "agg.dispatch.exactly_one_backend_runs");
        let v: usize = kani::any();
        kani::assume(v < B);
        assert!(out[v] == ref_body_byte(&b, v, q1, q2, q3), "agg.dispatch.result_is_the_contract_result");
    }
    // @ob id=agg.dispatch.48 props=C07,C01,C18 rows=simd kind=HC+stub fn=generate::bucket_aggregation::aggregate_48 domain="all CPU feature masks (2^128) x all inputs; OnceLock executed single-threaded (first call: initialisation included); back ends by their proved contracts; allocator entry points stubbed to panic" replay=none
    #[kani::proof]
    #[kani::unwind(14)]
    #[kani::stub(std_detect::detect::cache::test, verif_support::model_detect_test)]
    #[kani::stub(alloc::alloc::alloc, verif_support::no_alloc)]
    #[kani::stub(alloc::alloc::alloc_zeroed, verif_support::no_alloc)]
    #[kani::stub(alloc::alloc::realloc, verif_support::no_realloc)]
    #[kani::stub(super::super::x86_avx2::aggregate_48, m48)]
    #[kani::stub(super::super::x86_ssse3::aggregate_48, m48)]
    #[kani::stub(super::super::x86_sse2::aggregate_48, m48)]
    #[kani::stub(super::super::naive::aggregate_48, n48)]
    pub fn ob_dispatch_48() { check_dispatch::<12, 48>(super::super::aggregate_48) }
    // @ob id=agg.dispatch.128 props=C07,C01,C18 rows=simd kind=HC+stub fn=generate::bucket_aggregation::aggregate_128 domain="all CPU feature masks (2^128) x all inputs; OnceLock executed single-threaded (first call: initialisation included); back ends by their proved contracts; allocator entry points stubbed to panic" replay=none
    #[kani::proof]
    #[kani::unwind(34)]
    #[kani::stub(std_detect::detect::cache::test, verif_support::model_detect_test)]
    #[kani::stub(alloc::alloc::alloc, verif_support::no_alloc)]
    #[kani::stub(alloc::alloc::alloc_zeroed, verif_support::no_alloc)]
    #[kani::stub(alloc::alloc::realloc, verif_support::no_realloc)]
    #[kani::stub(super::super::x86_avx2::aggregate_128, m128)]
    #[kani::stub(super::super::x86_ssse3::aggregate_128, m128)]
    #[kani::stub(super::super::x86_sse2::aggregate_128, m128)]
    #[kani::stub(super::super::naive::aggregate_128, n128)]
    pub fn ob_dispatch_128() { check_dispatch::<32, 128>(super::super::aggregate_128) }
    // @ob id=agg.dispatch.256 props=C07,C01,C18 rows=simd quick=- kind=HC+stub fn=generate::bucket_aggregation::aggregate_256 domain="all CPU feature masks (2^128) x all inputs; OnceLock executed single-threaded (first call: initialisation included); back ends by their proved contracts; allocator entry points stubbed to panic" replay=none
    #[kani::proof]
    #[kani::unwind(66)]
    #[kani::stub(std_detect::detect::cache::test, verif_support::model_detect_test)]
    #[kani::stub(alloc::alloc::alloc, verif_support::no_alloc)]
    #[kani::stub(alloc::alloc::alloc_zeroed, verif_support::no_alloc)]
    #[kani::stub(alloc::alloc::realloc, verif_support::no_realloc)]
    #[kani::stub(super::super::x86_avx2::aggregate_256, m256)]
    #[kani::stub(super::super::x86_ssse3::aggregate_256, m256)]
    #[kani::stub(super::super::x86_sse2::aggregate_256, m256)]
    #[kani::stub(super::super::naive::aggregate_256, n256)]
    pub fn ob_dispatch_256() { check_dispatch::<64, 256>(super::super::aggregate_256) }
}
