//! Contracts: x86_avx2::{sub_aggregation, aggregate_48, aggregate_128, aggregate_256}.
//! `_mm256_shuffle_epi8` is not executable by Kani; it is replaced by a model written from the Intel
//! SDM (ASSUMED contract, validated natively against the real instruction at set-up).
#![allow(missing_docs, unsafe_code, unused_imports, clippy::all)]
use crate::verif_spec::*;
#[cfg(target_arch = "x86_64")]
use core::arch::x86_64::*;

fn ref_byte4(b: &[u32], q1: u32, q2: u32, q3: u32) -> u8 {
    ref_dibit_class(b[0], q1, q2, q3) | ref_dibit_class(b[1], q1, q2, q3) << 2 | ref_dibit_class(b[2], q1, q2, q3) << 4 | ref_dibit_class(b[3], q1, q2, q3) << 6
}
unsafe fn model_sub(buckets: &[u32], q1: u32, q2: u32, q3: u32) -> (u8, u8) {
    assert!(buckets.len() >= 8, "precondition of sub_aggregation");
    (ref_byte4(&buckets[4..8], q1, q2, q3), ref_byte4(&buckets[0..4], q1, q2, q3))
}

// @ob id=agg.x86_avx2.sub_aggregation.eq_ref props=C07,C01,C17 rows=simd,simd-unsafe quick=simd kind=HC+stub fn=generate::bucket_aggregation::x86_avx2::sub_aggregation domain="all 8 buckets x all ordered quartiles (_mm256_shuffle_epi8 by its SDM model)" replay=native
#[kani::proof]
#[kani::unwind(34)]
#[kani::stub(core::arch::x86_64::_mm256_shuffle_epi8, verif_support::x86_shuffle::mm256_shuffle_epi8)]
fn ob_sub_aggregation() {
    let b: [u32; 8] = kani::any();
    let (q1, q2, q3): (u32, u32, u32) = kani::any();
    kani::assume(q1 <= q2 && q2 <= q3);
    let r = unsafe { super::sub_aggregation(&b, q1, q2, q3) };
    // the pair is (byte of buckets 4..8, byte of buckets 0..4)
    assert!(r.1 == ref_byte4(&b[0..4], q1, q2, q3) && r.0 == ref_byte4(&b[4..8], q1, q2, q3), "x86_avx2.sub_aggregation.eq_ref");
}

fn check<const B: usize, const N: usize>(f: unsafe fn(&mut [u8; B], &[u32; N], u32, u32, u32)) {
    let b: [u32; N] = kani::any();
    let (q1, q2, q3): (u32, u32, u32) = kani::any();
    kani::assume(q1 <= q2 && q2 <= q3);
    let mut out = [0u8; B];
    unsafe { f(&mut out, &b, q1, q2, q3) };
    let i: usize = kani::any();
    kani::assume(i < N);
    assert!((out[B - 1 - i / 4] >> (2 * (i % 4))) & 3 == ref_dibit_class(b[i], q1, q2, q3), "agg.bucket_i_is_dibit_2(i%4)_of_byte_B-1-i/4");
}
// callers: chunk loop with the kernel replaced by its proved contract
// @ob id=agg.x86_avx2.aggregate.48 props=C07,C01,C17 rows=simd,simd-unsafe quick=simd kind=HC+stub fn=generate::bucket_aggregation::x86_avx2::aggregate_48 domain="all bucket arrays x all ordered quartiles x witness bucket" replay=none
#[kani::proof]
#[kani::unwind(14)]
#[kani::stub(super::sub_aggregation, model_sub)]
fn ob_aggregate_48() { check::<12, 48>(super::aggregate_48) }
// @ob id=agg.x86_avx2.aggregate.128 props=C07,C01,C17 rows=simd,simd-unsafe quick=simd kind=HC+stub fn=generate::bucket_aggregation::x86_avx2::aggregate_128 domain="all bucket arrays x all ordered quartiles x witness bucket" replay=none
#[kani::proof]
#[kani::unwind(34)]
#[kani::stub(super::sub_aggregation, model_sub)]
fn ob_aggregate_128() { check::<32, 128>(super::aggregate_128) }
// @ob id=agg.x86_avx2.aggregate.256 props=C07,C01,C17 rows=simd,simd-unsafe quick=- kind=HC+stub fn=generate::bucket_aggregation::x86_avx2::aggregate_256 domain="all bucket arrays x all ordered quartiles x witness bucket" replay=none
#[kani::proof]
#[kani::unwind(66)]
#[kani::stub(super::sub_aggregation, model_sub)]
fn ob_aggregate_256() { check::<64, 256>(super::aggregate_256) }
