//! Contract models ("contract stubs") for functions whose contract is proved
//! separately on the real code (see the obligation named in each comment).
//! A caller's harness replaces the callee by its model with `#[kani::stub]`:
//! the modular step of contract-based verification for functions Kani's own
//! `stub_verified` cannot express (`&mut` outputs, `const` generics).
//! Each model is the *functional* contract: it writes exactly what the contract
//! says and nothing else.
#![allow(dead_code, missing_docs, clippy::all)]
use crate::verif_spec::*;

/// contract of parse::hex_str::decode_1 / decode_rev_1 (obligations hex.decode_1.*, hex.decode_rev_1.*)
pub fn model_decode_1(src: &[u8]) -> Option<u8> {
    if src.len() != 2 { return None; }
    match (ref_hexval(src[0]), ref_hexval(src[1])) { (Some(a), Some(b)) => Some(a << 4 | b), _ => None }
}
pub fn model_decode_rev_1(src: &[u8]) -> Option<u8> {
    if src.len() != 2 { return None; }
    match (ref_hexval(src[0]), ref_hexval(src[1])) { (Some(a), Some(b)) => Some(b << 4 | a), _ => None }
}
/// contract of decode_array<N> / decode_rev_array<N>: true iff len == 2N and all
/// digits are hex, and then dst holds the decoded bytes.  When false the contract
/// says nothing about dst: the model havocs it.
pub fn model_decode_array<const N: usize>(dst: &mut [u8; N], src: &[u8]) -> bool {
    let mut ok = src.len() == N * 2;
    let mut k = 0;
    while k < N {
        if ok {
            match model_decode_1(&src[2 * k..2 * k + 2]) { Some(v) => dst[k] = v, None => ok = false }
        }
        k += 1;
    }
    if !ok { let mut k = 0; while k < N { dst[k] = kani::any(); k += 1; } }
    ok
}
pub fn model_decode_rev_array<const N: usize>(dst: &mut [u8; N], src: &[u8]) -> bool {
    let mut ok = src.len() == N * 2;
    let mut k = 0;
    while k < N {
        if ok {
            match model_decode_rev_1(&src[2 * k..2 * k + 2]) { Some(v) => dst[k] = v, None => ok = false }
        }
        k += 1;
    }
    if !ok { let mut k = 0; while k < N { dst[k] = kani::any(); k += 1; } }
    ok
}
/// contract of encode_rev_1: requires dst.len() >= 2 (else a clean panic); writes
/// low nibble then high nibble as upper-case digits into dst[0..2]; rest untouched
pub fn model_encode_rev_1(dst: &mut [u8], value: u8) {
    assert!(dst.len() >= 2);
    dst[0] = ref_hexdigit_upper(value & 15);
    dst[1] = ref_hexdigit_upper(value >> 4);
}
/// contract of encode_array<N> / encode_rev_array<N>: requires dst.len() >= 2N
/// (asserted here, so every call site must establish it); writes the 2N digits at
/// the front of dst; every other byte of dst untouched.  (With a shorter dst the
/// real functions silently write fewer pairs; no caller relies on that and the
/// contract does not cover it.)
pub fn model_encode_array<const N: usize>(dst: &mut [u8], src: &[u8; N]) {
    assert!(dst.len() >= 2 * N, "precondition of encode_array: destination holds 2N bytes");
    let mut k = 0;
    while k < N {
        dst[2 * k] = ref_hexdigit_upper(src[k] >> 4);
        dst[2 * k + 1] = ref_hexdigit_upper(src[k] & 15);
        k += 1;
    }
}
pub fn model_encode_rev_array<const N: usize>(dst: &mut [u8], src: &[u8; N]) {
    assert!(dst.len() >= 2 * N, "precondition of encode_rev_array: destination holds 2N bytes");
    let mut k = 0;
    while k < N {
        dst[2 * k] = ref_hexdigit_upper(src[k] & 15);
        dst[2 * k + 1] = ref_hexdigit_upper(src[k] >> 4);
        k += 1;
    }
}
