//! Contracts: generate_easy_std::{hash_stream_common, hash_stream_for} against a ghost
//! generator and scripted / adversarial readers.  The unbounded proof is the Verus
//! unit `stream`; the scripted-reader obligations here are BOUNDED (number of reader
//! events) and exist to turn a failed clause into a replayable reader script.
#![allow(missing_docs, unused_imports, clippy::all)]
use super::hash_stream_common;
use crate::errors::{GeneratorError, GeneratorOrIOError};
use crate::generate::GeneratorOptions;
use crate::{FuzzyHashType, GeneratorType};
use std::io::{ErrorKind, Read};

/// Ghost generator: counts the bytes fed and watches one absolute stream offset.
struct GhostGen { total: u64, watch: u64, seen: Option<u8>, finalized: u32 }
impl GeneratorType for GhostGen {
    type Output = crate::hashes::Short;
    const IS_CHECKSUM_EFFECTIVE: bool = true;
    const MIN: u32 = 0;
    const MIN_CONSERVATIVE: u32 = 0;
    const MAX: u32 = 0;
    fn processed_len(&self) -> Option<u32> { None }
    fn update(&mut self, data: &[u8]) {
        let n = data.len() as u64;
        if self.watch >= self.total && self.watch < self.total + n {
            self.seen = Some(data[(self.watch - self.total) as usize]);
        }
        self.total += n;
    }
    fn finalize_with_options(&self, _o: &GeneratorOptions) -> Result<Self::Output, GeneratorError> {
        Err(GeneratorError::BucketsAreHalfEmpty)   // a recognisable "generator result"
    }
    #[cfg(test)]   // concrete playback builds the crate under cfg(test)
    fn count_nonzero_buckets(&self) -> usize { 0 }
}

/// Scripted reader: each call nondeterministically delivers k >= 1 bytes, reports a
/// transient interruption, fails hard, or signals end of stream; after `max` events: EOF.
struct ScriptReader { delivered: u64, watch: u64, wrote: Option<u8>, hard_err: bool, interrupts: u32, steps: u32, max: u32, eof: bool }
impl Read for ScriptReader {
    fn read(&mut self, buf: &mut [u8]) -> std::io::Result<usize> {
        self.steps += 1;
        let ev: u8 = if self.steps > self.max { 0 } else { kani::any() };
        match ev {
            0 => { self.eof = true; Ok(0) }
            1 => { self.hard_err = true; Err(ErrorKind::Other.into()) }
            2 => { self.interrupts += 1; Err(ErrorKind::Interrupted.into()) }
            _ => {
                let k: usize = kani::any();
                kani::assume(k >= 1 && k <= buf.len());
                if self.watch >= self.delivered && self.watch < self.delivered + k as u64 {
                    let v: u8 = kani::any();
                    buf[(self.watch - self.delivered) as usize] = v;
                    self.wrote = Some(v);
                }
                self.delivered += k as u64;
                Ok(k)
            }
        }
    }
}

fn check_script(max: u32) {
    let watch: u64 = kani::any();
    let mut g = GhostGen { total: 0, watch, seen: None, finalized: 0 };
    let mut r = ScriptReader { delivered: 0, watch, wrote: None, hard_err: false, interrupts: 0, steps: 0, max, eof: false };
    let res = hash_stream_common(&mut g, &mut r);
    match res {
        Err(GeneratorOrIOError::IOError(_)) => {
            assert!(r.hard_err, "stream.io_error_only_for_a_hard_reader_error (a transient interruption must be retried)");
        }
        Err(GeneratorOrIOError::GeneratorError(e)) => {
            assert!(!r.hard_err, "stream.hard_error_is_reported");
            assert!(r.eof, "stream.reads_until_the_reader_signals_end_of_stream (a short read is not the end)");
            assert!(e == GeneratorError::BucketsAreHalfEmpty, "stream.result_is_the_generator_result");
            assert!(g.total == r.delivered, "stream.fed_exactly_the_delivered_byte_count");
            assert!(g.seen == r.wrote, "stream.fed_exactly_the_delivered_bytes");
        }
        Ok(_) => assert!(false, "stream.result_is_the_generator_result"),
    }
    kani::cover!(r.interrupts > 0 && r.delivered > 0 && !r.hard_err, "interrupted and continued");
    kani::cover!(r.delivered > 1_048_576, "more than one buffer");
}

// @ob id=stream.bounded_script.2 props=C12 rows=plain kind=HC fn=generate_easy_std::hash_stream_common domain="reader scripts of <= 2 events (deliver k in 1..=1 MiB | Interrupted | hard error | EOF), ghost generator, witness offset" cbmc="--arrays-uf-always" bounded="reader script length <= 2 events" timeout=1500
#[kani::proof]
#[kani::unwind(5)]
fn ob_script_2() { check_script(2) }

// @ob id=stream.bounded_script.3 props=C12 rows=plain quick=- kind=HC fn=generate_easy_std::hash_stream_common domain="reader scripts of <= 3 events" cbmc="--arrays-uf-always" bounded="reader script length <= 3 events" timeout=2700
#[kani::proof]
#[kani::unwind(6)]
fn ob_script_3() { check_script(3) }

/// A reader that misreports how much it read (a safe trait, so anything goes).
struct LyingReader { steps: u32 }
impl Read for LyingReader {
    fn read(&mut self, _buf: &mut [u8]) -> std::io::Result<usize> {
        self.steps += 1;
        if self.steps > 1 { return Ok(0); }
        let k: usize = kani::any();
        Ok(k)
    }
}
// allowed: a clean panic (slice bounds / debug assertion); forbidden: anything else,
// in particular reaching unreachable_unchecked() under feature `unsafe`
// @ob id=stream.lying_reader props=C17 rows=plain,unsafe quick=plain,unsafe kind=HC fn=generate_easy_std::hash_stream_common domain="reader returning any usize as its byte count" cbmc="--arrays-uf-always" allow="range end index|assertion failed: len <= buffer.len\(\)|slice index|slice_index_fail|slice::index" timeout=1500
#[kani::proof]
#[kani::unwind(4)]
fn ob_lying_reader() {
    let mut g = GhostGen { total: 0, watch: 0, seen: None, finalized: 0 };
    let mut r = LyingReader { steps: 0 };
    let _ = hash_stream_common(&mut g, &mut r);
}

// hash_stream_for starts from a fresh generator and returns what the common loop returns
// @ob id=stream.hash_stream_for.fresh_generator props=C12 rows=plain kind=HC fn=generate_easy_std::hash_stream_for domain="empty stream (structure obligation)" cbmc="--arrays-uf-always" timeout=1500
#[kani::proof]
#[kani::unwind(4)]
fn ob_hash_stream_for_empty() {
    let mut r = ScriptReader { delivered: 0, watch: 0, wrote: None, hard_err: false, interrupts: 0, steps: 0, max: 0, eof: false };
    let res = super::hash_stream_for::<crate::hashes::Short, _>(&mut r);
    assert!(matches!(res, Err(GeneratorOrIOError::GeneratorError(GeneratorError::TooSmallInput))), "stream.hash_stream_for.empty_stream_is_too_small");
}

// the helper introduced by the C12 repair: true exactly for ErrorKind::Interrupted
// @ob id=stream.is_interrupted.eq_ref props=C12 rows=plain kind=HC fn=generate_easy_std::is_interrupted domain="io::Error built from each ErrorKind used by the scripted readers plus a symbolic choice of 8 common kinds"
#[kani::proof]
fn ob_is_interrupted() {
    let c: u8 = kani::any();
    let kind = match c % 8 {
        0 => ErrorKind::Interrupted, 1 => ErrorKind::Other, 2 => ErrorKind::UnexpectedEof, 3 => ErrorKind::WouldBlock,
        4 => ErrorKind::NotFound, 5 => ErrorKind::PermissionDenied, 6 => ErrorKind::TimedOut, _ => ErrorKind::InvalidData,
    };
    let e: std::io::Error = kind.into();
    assert!(super::is_interrupted(&e) == (kind == ErrorKind::Interrupted), "stream.is_interrupted.eq_ref");
}
