//! Contracts: x86_avx2::{distance_32, distance_64} == reference body distance (real stdarch semantics)
#![allow(missing_docs, unsafe_code)]
use crate::verif_spec::*;

// @ob id=x86_avx2.distance_32.eq_ref props=C02,C07,C17 rows=simd,simd-unsafe quick=simd kind=HC fn=compare::dist_body::x86_avx2::distance_32 domain="all 2^512 body pairs" allow=simd
#[kani::proof]
#[kani::unwind(33)]
fn ob_distance_32() {
    let a: [u8; 32] = kani::any();
    let b: [u8; 32] = kani::any();
    let d = unsafe { super::distance_32(&a, &b) };
    assert!(d == ref_body_dist(&a, &b), "x86_avx2.distance_32.eq_ref");
}
// @ob id=x86_avx2.distance_64.eq_ref props=C02,C07,C17 rows=simd,simd-unsafe quick=simd kind=HC fn=compare::dist_body::x86_avx2::distance_64 domain="all 2^1024 body pairs" allow=simd
#[kani::proof]
#[kani::unwind(65)]
fn ob_distance_64() {
    let a: [u8; 64] = kani::any();
    let b: [u8; 64] = kani::any();
    let d = unsafe { super::distance_64(&a, &b) };
    assert!(d == ref_body_dist(&a, &b), "x86_avx2.distance_64.eq_ref");
}
