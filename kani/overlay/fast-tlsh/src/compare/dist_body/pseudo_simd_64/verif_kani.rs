//! Contracts: pseudo_simd_64::{sub_distance, distance_12, distance_32, distance_64}
#![allow(missing_docs)]
use crate::verif_spec::*;

// Lane leakage between neighbouring dibits is excluded for ALL operand pairs.
// @ob id=pseudo_simd_64.sub_distance.eq_ref props=C02,C07,C08 rows=plain kind=HC fn=compare::dist_body::pseudo_simd_64::sub_distance domain="all 2^128 (x,y)"
#[kani::proof]
#[kani::unwind(33)]
fn ob_sub_distance() {
    let x: u64 = kani::any();
    let y: u64 = kani::any();
    let d = super::sub_distance(x, y);
    assert!(d == ref_sub64(x, y), "pseudo_simd_64.sub_distance.eq_ref");
    kani::cover!(d == 192, "maximum attained");
}

fn w64(a: &[u8], k: usize) -> u64 {
    u64::from_ne_bytes([a[8 * k], a[8 * k + 1], a[8 * k + 2], a[8 * k + 3], a[8 * k + 4], a[8 * k + 5], a[8 * k + 6], a[8 * k + 7]])
}
fn w32(a: &[u8], o: usize) -> u32 { u32::from_ne_bytes([a[o], a[o + 1], a[o + 2], a[o + 3]]) }

// The callers are sums of sub_distance over consecutive native-endian chunks.
// @ob id=pseudo_simd_64.distance_32.sum_of_chunks props=C02,C07 rows=plain kind=HC fn=compare::dist_body::pseudo_simd_64::distance_32 domain="all 2^512 body pairs"
#[kani::proof]
#[kani::unwind(9)]
fn ob_distance_32() {
    let a: [u8; 32] = kani::any();
    let b: [u8; 32] = kani::any();
    let e = super::sub_distance(w64(&a, 0), w64(&b, 0)) + super::sub_distance(w64(&a, 1), w64(&b, 1))
        + super::sub_distance(w64(&a, 2), w64(&b, 2)) + super::sub_distance(w64(&a, 3), w64(&b, 3));
    assert!(super::distance_32(&a, &b) == e, "pseudo_simd_64.distance_32.sum_of_chunks");
}
// @ob id=pseudo_simd_64.distance_64.sum_of_chunks props=C02,C07 rows=plain kind=HC fn=compare::dist_body::pseudo_simd_64::distance_64 domain="all 2^1024 body pairs"
#[kani::proof]
#[kani::unwind(10)]
fn ob_distance_64() {
    let a: [u8; 64] = kani::any();
    let b: [u8; 64] = kani::any();
    let mut e = 0u32;
    let mut k = 0;
    while k < 8 { e += super::sub_distance(w64(&a, k), w64(&b, k)); k += 1; }
    assert!(super::distance_64(&a, &b) == e, "pseudo_simd_64.distance_64.sum_of_chunks");
}
// @ob id=pseudo_simd_64.distance_12.sum_of_chunks props=C02,C07 rows=plain kind=HC fn=compare::dist_body::pseudo_simd_64::distance_12 domain="all 2^192 body pairs"
#[kani::proof]
fn ob_distance_12() {
    let a: [u8; 12] = kani::any();
    let b: [u8; 12] = kani::any();
    let e = super::sub_distance(w64(&a, 0), w64(&b, 0)) + super::super::pseudo_simd_32::sub_distance(w32(&a, 8), w32(&b, 8));
    assert!(super::distance_12(&a, &b) == e, "pseudo_simd_64.distance_12.sum_of_chunks");
}

// Spec bridge: word-shaped reference == byte-shaped reference (native endian, 8 bytes).
// @ob id=spec.sub64.bytes props=C02 rows=plain kind=HC fn=spec::ref_sub64 domain="all 2^128 (8+8 bytes)"
#[kani::proof]
#[kani::unwind(33)]
fn ob_spec_sub64_bytes() {
    let c: [u8; 8] = kani::any();
    let d: [u8; 8] = kani::any();
    let mut e = 0u32;
    let mut i = 0;
    while i < 8 { e += ref_byte_dist(c[i], d[i]); i += 1; }
    assert!(ref_sub64(u64::from_ne_bytes(c), u64::from_ne_bytes(d)) == e, "spec.sub64.bytes");
}
