//! Contracts: pseudo_simd_32::{sub_distance, distance_12, distance_32, distance_64}
#![allow(missing_docs)]
use crate::verif_spec::*;

// @ob id=pseudo_simd_32.sub_distance.eq_ref props=C02,C07,C08 rows=plain kind=HC fn=compare::dist_body::pseudo_simd_32::sub_distance domain="all 2^64 (x,y)"
#[kani::proof]
#[kani::unwind(17)]
fn ob_sub_distance() {
    let x: u32 = kani::any();
    let y: u32 = kani::any();
    let d = super::sub_distance(x, y);
    assert!(d == ref_sub32(x, y), "pseudo_simd_32.sub_distance.eq_ref");
    kani::cover!(d == 96, "maximum attained");
}
fn w32(a: &[u8], k: usize) -> u32 { u32::from_ne_bytes([a[4 * k], a[4 * k + 1], a[4 * k + 2], a[4 * k + 3]]) }

fn chunks_sum<const N: usize>(a: &[u8; N], b: &[u8; N]) -> u32 {
    let mut e = 0u32;
    let mut k = 0;
    while k < N / 4 { e += super::sub_distance(w32(a, k), w32(b, k)); k += 1; }
    e
}
// @ob id=pseudo_simd_32.distance_12.sum_of_chunks props=C02,C07 rows=plain kind=HC fn=compare::dist_body::pseudo_simd_32::distance_12 domain="all body pairs"
#[kani::proof]
#[kani::unwind(5)]
fn ob_distance_12() {
    let a: [u8; 12] = kani::any();
    let b: [u8; 12] = kani::any();
    assert!(super::distance_12(&a, &b) == chunks_sum(&a, &b), "pseudo_simd_32.distance_12.sum_of_chunks");
}
// @ob id=pseudo_simd_32.distance_32.sum_of_chunks props=C02,C07 rows=plain kind=HC fn=compare::dist_body::pseudo_simd_32::distance_32 domain="all body pairs"
#[kani::proof]
#[kani::unwind(10)]
fn ob_distance_32() {
    let a: [u8; 32] = kani::any();
    let b: [u8; 32] = kani::any();
    assert!(super::distance_32(&a, &b) == chunks_sum(&a, &b), "pseudo_simd_32.distance_32.sum_of_chunks");
}
// @ob id=pseudo_simd_32.distance_64.sum_of_chunks props=C02,C07 rows=plain kind=HC fn=compare::dist_body::pseudo_simd_32::distance_64 domain="all body pairs"
#[kani::proof]
#[kani::unwind(18)]
fn ob_distance_64() {
    let a: [u8; 64] = kani::any();
    let b: [u8; 64] = kani::any();
    assert!(super::distance_64(&a, &b) == chunks_sum(&a, &b), "pseudo_simd_32.distance_64.sum_of_chunks");
}
// @ob id=spec.sub32.bytes props=C02 rows=plain kind=HC fn=spec::ref_sub32 domain="all 2^64 (4+4 bytes)"
#[kani::proof]
#[kani::unwind(17)]
fn ob_spec_sub32_bytes() {
    let c: [u8; 4] = kani::any();
    let d: [u8; 4] = kani::any();
    let mut e = 0u32;
    let mut i = 0;
    while i < 4 { e += ref_byte_dist(c[i], d[i]); i += 1; }
    assert!(ref_sub32(u32::from_ne_bytes(c), u32::from_ne_bytes(d)) == e, "spec.sub32.bytes");
}
