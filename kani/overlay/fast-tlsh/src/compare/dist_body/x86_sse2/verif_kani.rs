//! Contracts: x86_sse2::{packed_distance_as_u16x8, distance_32, distance_64} (real stdarch semantics)
//! Modular: the packed kernel has a per-lane contract (proved on the real code);
//! the callers are proved against that contract with the kernel replaced by a
//! recording contract-stub (havoc + assume(post)).  SAT cannot re-associate adder
//! trees (measured: 16 six-bit terms, > 5 min), so the expected value here is
//! written in the *same summation shape* as the code (`tree_32`/`tree_64`) and the
//! re-association `tree == flat sum` is a Verus lemma over the very same text
//! (verus unit `sum_trees`, extracted from between the markers below).
#![allow(missing_docs, unsafe_code, static_mut_refs)]
use crate::verif_spec::*;
#[cfg(target_arch = "x86_64")]
use core::arch::x86_64::*;

fn m128(b: [u8; 16]) -> __m128i { unsafe { core::mem::transmute(b) } }
fn bytes(v: __m128i) -> [u8; 16] { unsafe { core::mem::transmute(v) } }
fn lanes(v: __m128i) -> [u16; 8] { unsafe { core::mem::transmute(v) } }
fn chunk16(a: &[u8], k: usize) -> [u8; 16] { let mut o = [0u8; 16]; o.copy_from_slice(&a[16 * k..16 * k + 16]); o }
fn w32(a: &[u8], k: usize) -> u32 { u32::from_ne_bytes([a[4 * k], a[4 * k + 1], a[4 * k + 2], a[4 * k + 3]]) }

// Per-lane contract of the packed kernel: 16-bit lane j = sum of the 8 dibit distances of bytes 2j, 2j+1
// @ob id=x86_sse2.packed.eq_ref props=C02,C07,C17 rows=simd,simd-unsafe quick=simd kind=HC fn=compare::dist_body::x86_sse2::packed_distance_as_u16x8 domain="all 2^256 (x,y), witness lane" allow=simd
#[kani::proof]
#[kani::unwind(17)]
fn ob_packed() {
    let x: [u8; 16] = kani::any();
    let y: [u8; 16] = kani::any();
    let r = lanes(unsafe { super::packed_distance_as_u16x8(m128(x), m128(y)) });
    let j: usize = kani::any();
    kani::assume(j < 8);
    assert!(r[j] as u32 == ref_byte_dist(x[2 * j], y[2 * j]) + ref_byte_dist(x[2 * j + 1], y[2 * j + 1]), "x86_sse2.packed.eq_ref");
    assert!(r[j] as u32 <= 48, "x86_sse2.packed.lane_bound");
}

// @verus-begin x86_sse2
pub fn tree_32(l: &[[u32; 8]; 2]) -> u32 {
    let s0 = l[0][0] + l[1][0]; let s1 = l[0][1] + l[1][1]; let s2 = l[0][2] + l[1][2]; let s3 = l[0][3] + l[1][3];
    let s4 = l[0][4] + l[1][4]; let s5 = l[0][5] + l[1][5]; let s6 = l[0][6] + l[1][6]; let s7 = l[0][7] + l[1][7];
    ((s0 + s4) + (s2 + s6)) + ((s1 + s5) + (s3 + s7))
}
pub fn tree_64(l: &[[u32; 8]; 4]) -> u32 {
    let s0 = ((l[0][0] + l[1][0]) + l[2][0]) + l[3][0]; let s1 = ((l[0][1] + l[1][1]) + l[2][1]) + l[3][1];
    let s2 = ((l[0][2] + l[1][2]) + l[2][2]) + l[3][2]; let s3 = ((l[0][3] + l[1][3]) + l[2][3]) + l[3][3];
    let s4 = ((l[0][4] + l[1][4]) + l[2][4]) + l[3][4]; let s5 = ((l[0][5] + l[1][5]) + l[2][5]) + l[3][5];
    let s6 = ((l[0][6] + l[1][6]) + l[2][6]) + l[3][6]; let s7 = ((l[0][7] + l[1][7]) + l[2][7]) + l[3][7];
    ((s0 + s4) + (s2 + s6)) + ((s1 + s5) + (s3 + s7))
}
// @verus-end

// ---- recording contract-stub for the kernel
static mut REC_N: usize = 0;
static mut REC_X: [[u8; 16]; 4] = [[0; 16]; 4];
static mut REC_Y: [[u8; 16]; 4] = [[0; 16]; 4];
static mut REC_L: [[u32; 8]; 4] = [[0; 8]; 4];
unsafe fn model_packed(x: __m128i, y: __m128i) -> __m128i {
    let r: [u16; 8] = kani::any();
    let mut j = 0;
    while j < 8 {
        kani::assume(r[j] as u32 <= 48);
        if REC_N < 4 { REC_L[REC_N][j] = r[j] as u32; }
        j += 1;
    }
    if REC_N < 4 { REC_X[REC_N] = bytes(x); REC_Y[REC_N] = bytes(y); }
    REC_N += 1;
    core::mem::transmute(r)
}
/// the recorded calls are exactly the n 16-byte chunk pairs (as a multiset)
fn check_calls(a: &[u8], b: &[u8], n: usize) {
    unsafe {
        assert!(REC_N == n, "x86_sse2.distance.call_count");
        let k: usize = kani::any();
        kani::assume(k < n);
        let (ck_a, ck_b) = (chunk16(a, k), chunk16(b, k));
        let mut calls = 0;
        let mut chunks = 0;
        let mut j = 0;
        while j < n {
            if REC_X[j] == ck_a && REC_Y[j] == ck_b { calls += 1; }
            if chunk16(a, j) == ck_a && chunk16(b, j) == ck_b { chunks += 1; }
            j += 1;
        }
        assert!(calls == chunks, "x86_sse2.distance.kernel_args_are_the_chunks");
    }
}
// @ob id=x86_sse2.distance_32.modular props=C02,C07,C17 rows=simd,simd-unsafe quick=simd kind=HC+stub fn=compare::dist_body::x86_sse2::distance_32 domain="all 2^512 body pairs (loads, pointer arithmetic, horizontal sum); kernel by its proved contract" replay=none
#[kani::proof]
#[kani::unwind(18)]
#[kani::stub(super::packed_distance_as_u16x8, model_packed)]
fn ob_distance_32() {
    let a: [u8; 32] = kani::any();
    let b: [u8; 32] = kani::any();
    let d = unsafe { super::distance_32(&a, &b) };
    check_calls(&a, &b, 2);
    let l = unsafe { [REC_L[0], REC_L[1]] };
    assert!(d == tree_32(&l), "x86_sse2.distance_32.sum_of_lanes");
}
// @ob id=x86_sse2.distance_64.modular props=C02,C07,C17 rows=simd,simd-unsafe quick=simd kind=HC+stub fn=compare::dist_body::x86_sse2::distance_64 domain="all 2^1024 body pairs; kernel by its proved contract" replay=none
#[kani::proof]
#[kani::unwind(18)]
#[kani::stub(super::packed_distance_as_u16x8, model_packed)]
fn ob_distance_64() {
    let a: [u8; 64] = kani::any();
    let b: [u8; 64] = kani::any();
    let d = unsafe { super::distance_64(&a, &b) };
    check_calls(&a, &b, 4);
    let l = unsafe { REC_L };
    assert!(d == tree_64(&l), "x86_sse2.distance_64.sum_of_lanes");
}
