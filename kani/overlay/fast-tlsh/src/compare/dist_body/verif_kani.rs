//! Contracts: dist_body::{distance_12, distance_32, distance_64} -- the selection layer
//! (static `usize::BITS` selection; run-time CPU dispatch through OnceLock in the simd row).
//! Every back end has its own contract (pseudo_simd_*, x86_*); here each is replaced by a
//! recording contract stub and the obligation is: exactly one back end runs, on the two
//! bodies, and its value is returned -- for EVERY detection outcome.
#![allow(missing_docs, unused_imports, clippy::all)]
#![cfg_attr(feature = "simd-per-arch", allow(unsafe_code))]
use crate::verif_spec::*;
use verif_support::{rec_get, rec_inc, rec_set};

const N_CALLS: usize = 12;
const W: usize = 13;
const A_W: usize = 14;
const B_W: usize = 15;
const D: usize = 16;
fn backend_model<const B: usize>(a: &[u8; B], b: &[u8; B]) -> u32 {
    rec_inc(N_CALLS);
    let w = rec_get(W) as usize;
    rec_set(A_W, a[w] as u64);
    rec_set(B_W, b[w] as u64);
    let d: u32 = kani::any();
    rec_set(D, d as u64);
    d
}
pub(crate) fn m12(a: &[u8; 12], b: &[u8; 12]) -> u32 { backend_model(a, b) }
pub(crate) fn m32(a: &[u8; 32], b: &[u8; 32]) -> u32 { backend_model(a, b) }
pub(crate) fn m64(a: &[u8; 64], b: &[u8; 64]) -> u32 { backend_model(a, b) }
#[cfg(feature = "simd-per-arch")]
pub(crate) unsafe fn u32m(a: &[u8; 32], b: &[u8; 32]) -> u32 { backend_model(a, b) }
#[cfg(feature = "simd-per-arch")]
pub(crate) unsafe fn u64m(a: &[u8; 64], b: &[u8; 64]) -> u32 { backend_model(a, b) }

fn check<const B: usize>(f: fn(&[u8; B], &[u8; B]) -> u32) {
    rec_set(62, kani::any());
    rec_set(63, kani::any());
    let a: [u8; B] = kani::any();
    let b: [u8; B] = kani::any();
    let w: usize = kani::any();
    kani::assume(w < B);
    rec_set(W, w as u64);
    let d = f(&a, &b);
    assert!(rec_get(N_CALLS) == 1, "dist_body.select.exactly_one_backend_runs");
    assert!((rec_get(A_W) == a[w] as u64 && rec_get(B_W) == b[w] as u64) || (rec_get(A_W) == b[w] as u64 && rec_get(B_W) == a[w] as u64), "dist_body.select.on_the_two_bodies");
    assert!(d as u64 == rec_get(D), "dist_body.select.returns_backend_value");
}

// @ob id=dist_body.select.12 props=C02,C07,C18 rows=plain,simd quick=plain quick.C07=plain,simd kind=HC+stub fn=compare::dist_body::distance_12 domain="all body pairs" replay=none
#[kani::proof]
#[kani::stub(alloc::alloc::alloc, verif_support::no_alloc)]
#[kani::stub(alloc::alloc::alloc_zeroed, verif_support::no_alloc)]
#[kani::stub(alloc::alloc::realloc, verif_support::no_realloc)]
#[kani::stub(super::pseudo_simd_64::distance_12, m12)]
#[kani::stub(super::pseudo_simd_32::distance_12, m12)]
fn ob_select_12() { check::<12>(super::distance_12) }

// @ob id=dist_body.select.32 props=C02,C07,C18 rows=plain,simd quick=plain quick.C07=plain,simd kind=HC+stub fn=compare::dist_body::distance_32 domain="all body pairs x all CPU feature masks (simd row: OnceLock executed single-threaded)" replay=none
#[kani::proof]
#[kani::stub(alloc::alloc::alloc, verif_support::no_alloc)]
#[kani::stub(alloc::alloc::alloc_zeroed, verif_support::no_alloc)]
#[kani::stub(alloc::alloc::realloc, verif_support::no_realloc)]
#[kani::stub(super::pseudo_simd_64::distance_32, m32)]
#[kani::stub(super::pseudo_simd_32::distance_32, m32)]
#[cfg_attr(all(feature = "simd-per-arch", feature = "opt-simd-body-comparison", feature = "detect-features"), kani::stub(std_detect::detect::cache::test, verif_support::model_detect_test))]
#[cfg_attr(all(feature = "simd-per-arch", feature = "opt-simd-body-comparison"), kani::stub(super::x86_avx2::distance_32, u32m))]
#[cfg_attr(all(feature = "simd-per-arch", feature = "opt-simd-body-comparison"), kani::stub(super::x86_sse4_1::distance_32, u32m))]
#[cfg_attr(all(feature = "simd-per-arch", feature = "opt-simd-body-comparison"), kani::stub(super::x86_sse2::distance_32, u32m))]
fn ob_select_32() { check::<32>(super::distance_32) }

// @ob id=dist_body.select.64 props=C02,C07,C18 rows=plain,simd quick=plain quick.C07=plain,simd kind=HC+stub fn=compare::dist_body::distance_64 domain="all body pairs x all CPU feature masks" replay=none
#[kani::proof]
#[kani::stub(alloc::alloc::alloc, verif_support::no_alloc)]
#[kani::stub(alloc::alloc::alloc_zeroed, verif_support::no_alloc)]
#[kani::stub(alloc::alloc::realloc, verif_support::no_realloc)]
#[kani::stub(super::pseudo_simd_64::distance_64, m64)]
#[kani::stub(super::pseudo_simd_32::distance_64, m64)]
#[cfg_attr(all(feature = "simd-per-arch", feature = "opt-simd-body-comparison", feature = "detect-features"), kani::stub(std_detect::detect::cache::test, verif_support::model_detect_test))]
#[cfg_attr(all(feature = "simd-per-arch", feature = "opt-simd-body-comparison"), kani::stub(super::x86_avx2::distance_64, u64m))]
#[cfg_attr(all(feature = "simd-per-arch", feature = "opt-simd-body-comparison"), kani::stub(super::x86_sse4_1::distance_64, u64m))]
#[cfg_attr(all(feature = "simd-per-arch", feature = "opt-simd-body-comparison"), kani::stub(super::x86_sse2::distance_64, u64m))]
fn ob_select_64() { check::<64>(super::distance_64) }

// spec-level laws of the per-byte reference distance (lifted to whole bodies by the Verus unit distance_laws)
// @ob id=spec.byte_dist.laws props=C08,C02 rows=plain kind=HC fn=spec::ref_byte_dist domain="all 2^16 byte pairs"
#[kani::proof]
fn ob_spec_byte_dist() {
    let (x, y): (u8, u8) = kani::any();
    let d = ref_byte_dist(x, y);
    assert!(d == ref_byte_dist(y, x), "spec.byte_dist.symmetric");
    assert!((d == 0) == (x == y), "spec.byte_dist.zero_iff_equal");
    assert!(d <= 24, "spec.byte_dist.max_6_per_dibit");
    kani::cover!(d == 24, "maximum attained (0x00 vs 0xff)");
}

// ---- name-independent probes of every compiled back end through its `pub` entry points only
// (they keep working when a back end's private kernel is renamed or restructured, in which case
// the modular obligations of that back end lose their anchor): extreme pair, equal pair, and one
// differing byte pair at a symbolic position over a symbolic uniform background.
fn probe<const B: usize>(f: &dyn Fn(&[u8; B], &[u8; B]) -> u32) {
    let zeros = [0u8; B];
    let ones = [0xffu8; B];
    assert!(f(&zeros, &ones) == 24 * B as u32, "backend.probe.maximum_distance_is_6_per_dibit");
    assert!(f(&ones, &zeros) == 24 * B as u32, "backend.probe.maximum_distance_symmetric");
    let c: u8 = kani::any();
    let (x, y): (u8, u8) = kani::any();
    let p: usize = kani::any();
    kani::assume(p < B);
    let mut a = [c; B];
    let mut b = [c; B];
    assert!(f(&a, &b) == 0, "backend.probe.equal_bodies_are_at_distance_0");
    a[p] = x;
    b[p] = y;
    assert!(f(&a, &b) == ref_byte_dist(x, y), "backend.probe.one_differing_byte_anywhere");
    // a full column of maximal differences next to equal bytes (sums above 255 per 32-bit column)
    let mut h = [c; B];
    let mut g = [c; B];
    let mut i = 0;
    while i < B { if i % 4 == 0 { h[i] = 0; g[i] = 0xff; } i += 1; }
    assert!(f(&h, &g) == 24 * (B as u32 / 4), "backend.probe.one_byte_lane_maximal");
}
// @ob id=dist_body.probe.sse2_32 props=C02,C07,C08,C17 rows=simd kind=HC fn=compare::dist_body::x86_sse2::distance_32 domain="extreme pair, equal pair, one symbolic byte pair at every position over a symbolic uniform background, one maximal byte lane" bounded="structured probe inputs (the full-domain proof is x86_sse2.*.modular + packed.eq_ref)"
#[cfg(all(feature = "simd-per-arch", feature = "opt-simd-body-comparison"))]
#[kani::proof]
#[kani::stub(core::arch::x86_64::_mm_add_epi32, verif_support::x86::mm_add_epi32)]
#[kani::stub(core::arch::x86_64::_mm_sub_epi32, verif_support::x86::mm_sub_epi32)]
#[kani::stub(core::arch::x86_64::_mm_mullo_epi32, verif_support::x86::mm_mullo_epi32)]
#[kani::stub(core::arch::x86_64::_mm_add_epi16, verif_support::x86::mm_add_epi16)]
#[kani::stub(core::arch::x86_64::_mm256_add_epi32, verif_support::x86::mm256_add_epi32)]
#[kani::stub(core::arch::x86_64::_mm256_sub_epi32, verif_support::x86::mm256_sub_epi32)]
#[kani::stub(core::arch::x86_64::_mm256_mullo_epi32, verif_support::x86::mm256_mullo_epi32)]
#[kani::unwind(66)]
fn ob_probe_sse2_32() { probe::<32>(&|a, b| unsafe { super::x86_sse2::distance_32(a, b) }) }
// @ob id=dist_body.probe.sse2_64 props=C02,C07,C08,C17 rows=simd kind=HC fn=compare::dist_body::x86_sse2::distance_64 domain="structured probe inputs" bounded="structured probe inputs"
#[cfg(all(feature = "simd-per-arch", feature = "opt-simd-body-comparison"))]
#[kani::proof]
#[kani::stub(core::arch::x86_64::_mm_add_epi32, verif_support::x86::mm_add_epi32)]
#[kani::stub(core::arch::x86_64::_mm_sub_epi32, verif_support::x86::mm_sub_epi32)]
#[kani::stub(core::arch::x86_64::_mm_mullo_epi32, verif_support::x86::mm_mullo_epi32)]
#[kani::stub(core::arch::x86_64::_mm_add_epi16, verif_support::x86::mm_add_epi16)]
#[kani::stub(core::arch::x86_64::_mm256_add_epi32, verif_support::x86::mm256_add_epi32)]
#[kani::stub(core::arch::x86_64::_mm256_sub_epi32, verif_support::x86::mm256_sub_epi32)]
#[kani::stub(core::arch::x86_64::_mm256_mullo_epi32, verif_support::x86::mm256_mullo_epi32)]
#[kani::unwind(66)]
fn ob_probe_sse2_64() { probe::<64>(&|a, b| unsafe { super::x86_sse2::distance_64(a, b) }) }
// @ob id=dist_body.probe.sse4_1_32 props=C02,C07,C08,C17 rows=simd kind=HC fn=compare::dist_body::x86_sse4_1::distance_32 domain="structured probe inputs" bounded="structured probe inputs"
#[cfg(all(feature = "simd-per-arch", feature = "opt-simd-body-comparison"))]
#[kani::proof]
#[kani::stub(core::arch::x86_64::_mm_add_epi32, verif_support::x86::mm_add_epi32)]
#[kani::stub(core::arch::x86_64::_mm_sub_epi32, verif_support::x86::mm_sub_epi32)]
#[kani::stub(core::arch::x86_64::_mm_mullo_epi32, verif_support::x86::mm_mullo_epi32)]
#[kani::stub(core::arch::x86_64::_mm_add_epi16, verif_support::x86::mm_add_epi16)]
#[kani::stub(core::arch::x86_64::_mm256_add_epi32, verif_support::x86::mm256_add_epi32)]
#[kani::stub(core::arch::x86_64::_mm256_sub_epi32, verif_support::x86::mm256_sub_epi32)]
#[kani::stub(core::arch::x86_64::_mm256_mullo_epi32, verif_support::x86::mm256_mullo_epi32)]
#[kani::unwind(66)]
fn ob_probe_sse4_1_32() { probe::<32>(&|a, b| unsafe { super::x86_sse4_1::distance_32(a, b) }) }
// @ob id=dist_body.probe.sse4_1_64 props=C02,C07,C08,C17 rows=simd kind=HC fn=compare::dist_body::x86_sse4_1::distance_64 domain="structured probe inputs" bounded="structured probe inputs"
#[cfg(all(feature = "simd-per-arch", feature = "opt-simd-body-comparison"))]
#[kani::proof]
#[kani::stub(core::arch::x86_64::_mm_add_epi32, verif_support::x86::mm_add_epi32)]
#[kani::stub(core::arch::x86_64::_mm_sub_epi32, verif_support::x86::mm_sub_epi32)]
#[kani::stub(core::arch::x86_64::_mm_mullo_epi32, verif_support::x86::mm_mullo_epi32)]
#[kani::stub(core::arch::x86_64::_mm_add_epi16, verif_support::x86::mm_add_epi16)]
#[kani::stub(core::arch::x86_64::_mm256_add_epi32, verif_support::x86::mm256_add_epi32)]
#[kani::stub(core::arch::x86_64::_mm256_sub_epi32, verif_support::x86::mm256_sub_epi32)]
#[kani::stub(core::arch::x86_64::_mm256_mullo_epi32, verif_support::x86::mm256_mullo_epi32)]
#[kani::unwind(66)]
fn ob_probe_sse4_1_64() { probe::<64>(&|a, b| unsafe { super::x86_sse4_1::distance_64(a, b) }) }
// @ob id=dist_body.probe.avx2_32 props=C02,C07,C08,C17 rows=simd kind=HC fn=compare::dist_body::x86_avx2::distance_32 domain="structured probe inputs" bounded="structured probe inputs"
#[cfg(all(feature = "simd-per-arch", feature = "opt-simd-body-comparison"))]
#[kani::proof]
#[kani::stub(core::arch::x86_64::_mm_add_epi32, verif_support::x86::mm_add_epi32)]
#[kani::stub(core::arch::x86_64::_mm_sub_epi32, verif_support::x86::mm_sub_epi32)]
#[kani::stub(core::arch::x86_64::_mm_mullo_epi32, verif_support::x86::mm_mullo_epi32)]
#[kani::stub(core::arch::x86_64::_mm_add_epi16, verif_support::x86::mm_add_epi16)]
#[kani::stub(core::arch::x86_64::_mm256_add_epi32, verif_support::x86::mm256_add_epi32)]
#[kani::stub(core::arch::x86_64::_mm256_sub_epi32, verif_support::x86::mm256_sub_epi32)]
#[kani::stub(core::arch::x86_64::_mm256_mullo_epi32, verif_support::x86::mm256_mullo_epi32)]
#[kani::unwind(66)]
fn ob_probe_avx2_32() { probe::<32>(&|a, b| unsafe { super::x86_avx2::distance_32(a, b) }) }
// @ob id=dist_body.probe.avx2_64 props=C02,C07,C08,C17 rows=simd kind=HC fn=compare::dist_body::x86_avx2::distance_64 domain="structured probe inputs" bounded="structured probe inputs"
#[cfg(all(feature = "simd-per-arch", feature = "opt-simd-body-comparison"))]
#[kani::proof]
#[kani::stub(core::arch::x86_64::_mm_add_epi32, verif_support::x86::mm_add_epi32)]
#[kani::stub(core::arch::x86_64::_mm_sub_epi32, verif_support::x86::mm_sub_epi32)]
#[kani::stub(core::arch::x86_64::_mm_mullo_epi32, verif_support::x86::mm_mullo_epi32)]
#[kani::stub(core::arch::x86_64::_mm_add_epi16, verif_support::x86::mm_add_epi16)]
#[kani::stub(core::arch::x86_64::_mm256_add_epi32, verif_support::x86::mm256_add_epi32)]
#[kani::stub(core::arch::x86_64::_mm256_sub_epi32, verif_support::x86::mm256_sub_epi32)]
#[kani::stub(core::arch::x86_64::_mm256_mullo_epi32, verif_support::x86::mm256_mullo_epi32)]
#[kani::unwind(66)]
fn ob_probe_avx2_64() { probe::<64>(&|a, b| unsafe { super::x86_avx2::distance_64(a, b) }) }
