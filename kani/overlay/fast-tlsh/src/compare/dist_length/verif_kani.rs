//! Contracts: compare::dist_length::distance (table and naive configurations)
#![allow(missing_docs)]
use crate::verif_spec::*;

// @ob id=dist_length.distance.eq_ref props=C02,C07,C08 rows=tables,plain quick=tables quick.C07=tables,plain kind=HC fn=compare::dist_length::distance domain="all 2^16 code pairs"
#[kani::proof]
fn ob_distance() {
    let a: u8 = kani::any();
    let b: u8 = kani::any();
    let d = super::distance(a, b);
    assert!(d == ref_ldist(a, b), "dist_length.distance.eq_ref");
    assert!(super::MAX_DISTANCE == 128 * 12, "dist_length.MAX_DISTANCE");
    kani::cover!(d == 128 * 12, "maximum attained");
}

// @ob id=spec.ldist.laws props=C08 rows=plain kind=HC fn=spec::ref_ldist domain="all 2^16 pairs (spec-level lemma)"
#[kani::proof]
fn ob_spec_ldist_laws() {
    let a: u8 = kani::any();
    let b: u8 = kani::any();
    let d = ref_ldist(a, b);
    assert!(d == ref_ldist(b, a), "spec.ldist.symmetric");
    assert!((d == 0) == (a == b), "spec.ldist.zero_iff_equal");
    assert!(d <= 128 * 12, "spec.ldist.max");
    kani::cover!(d == 128 * 12);
}
