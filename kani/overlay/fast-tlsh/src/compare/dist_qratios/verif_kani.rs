//! Contracts: compare::dist_qratios::distance (256x256 table, 16x16 table, naive)
#![allow(missing_docs)]
use crate::verif_spec::*;

// One call of the real function per harness: a second symbolic look-up into the
// 64 KiB table costs ~80 s for nothing; the algebraic laws are proved on the
// spec (spec.qdist.laws) and carried over by eq_ref.
// @ob id=dist_qratios.distance.eq_ref props=C02,C07,C08 rows=tables,embedded,plain quick=tables quick.C07=tables,embedded,plain kind=HC fn=compare::dist_qratios::distance domain="all 2^16 Q-ratio byte pairs"
#[kani::proof]
fn ob_distance() {
    let a: u8 = kani::any();
    let b: u8 = kani::any();
    let d = super::distance(a, b);
    assert!(d == ref_qdist(a, b), "dist_qratios.distance.eq_ref");
    assert!(super::MAX_DISTANCE == 168, "dist_qratios.MAX_DISTANCE");
    kani::cover!(d == 168, "maximum attained");
}

// @ob id=spec.qdist.laws props=C08 rows=plain kind=HC fn=spec::ref_qdist domain="all 2^16 pairs (spec-level lemma: symmetric, zero iff equal, <= 168)"
#[kani::proof]
fn ob_spec_qdist_laws() {
    let a: u8 = kani::any();
    let b: u8 = kani::any();
    let d = ref_qdist(a, b);
    assert!(d == ref_qdist(b, a), "spec.qdist.symmetric");
    assert!((d == 0) == (a == b), "spec.qdist.zero_iff_equal");
    assert!(d <= 168, "spec.qdist.max");
    kani::cover!(d == 168);
}
