//! Contracts: compare::dist_checksum::{distance_1, distance_3}
#![allow(missing_docs)]
use crate::verif_spec::*;

// @ob id=dist_checksum.distance_1.eq_ref props=C02,C08 rows=plain kind=HC fn=compare::dist_checksum::distance_1 domain="all 2^16 pairs"
#[kani::proof]
fn ob_distance_1() {
    let a: [u8; 1] = kani::any();
    let b: [u8; 1] = kani::any();
    let d = super::distance_1(a, b);
    assert!(d == ref_ckdist(&a, &b), "dist_checksum.distance_1.eq_ref");
    assert!(d == super::distance_1(b, a), "dist_checksum.distance_1.symmetric");
    assert!(d <= 1 && ((d == 0) == (a == b)), "dist_checksum.distance_1.bounds");
    kani::cover!(d == 1);
}

// @ob id=dist_checksum.distance_3.eq_ref props=C02,C08 rows=plain kind=HC fn=compare::dist_checksum::distance_3 domain="all 2^48 pairs"
#[kani::proof]
#[kani::unwind(5)]
fn ob_distance_3() {
    let a: [u8; 3] = kani::any();
    let b: [u8; 3] = kani::any();
    let d = super::distance_3(a, b);
    assert!(d == ref_ckdist(&a, &b), "dist_checksum.distance_3.eq_ref");
    assert!(d == super::distance_3(b, a), "dist_checksum.distance_3.symmetric");
    assert!(d <= 3 && ((d == 0) == (a == b)), "dist_checksum.distance_3.bounds");
    kani::cover!(d == 3);
}
