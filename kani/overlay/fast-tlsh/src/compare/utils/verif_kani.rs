//! Contracts: compare::utils::distance_on_ring_mod
#![allow(missing_docs)]
use crate::verif_spec::*;

// @ob id=utils.ring.eq_ref props=C02,C08,C17 rows=plain kind=HC fn=compare::utils::distance_on_ring_mod domain="all (x,y,n) with n=0 (meaning 256) or x,y<n: 2^24"
#[kani::proof]
fn ob_ring_eq_ref() {
    let x: u8 = kani::any();
    let y: u8 = kani::any();
    let n: u8 = kani::any();
    kani::assume(n == 0 || (x < n && y < n));
    kani::cover!(n == 16 && x == 0 && y == 8);
    let modulus = if n == 0 { 256 } else { n as u32 };
    let d = super::distance_on_ring_mod(x, y, n);
    assert!(d as u32 == ref_ring(x as u32, y as u32, modulus), "utils.ring.eq_ref");
    // symmetric, zero iff equal, bounded by n/2
    assert!(d == super::distance_on_ring_mod(y, x, n), "utils.ring.symmetric");
    assert!((d == 0) == (x == y), "utils.ring.zero_iff_equal");
    assert!(d as u32 <= modulus / 2, "utils.ring.bounded");
}
