//! Contract of compare_easy::{compare_with, compare}: generic over the sealed hash-type
//! trait, so it is verified the modular way -- against a GHOST hash type whose parser and
//! comparison are arbitrary (recorded) functions.  This child module of `params` can see
//! the sealing trait.  What "parse" and "compare" mean for the real types is the subject
//! of the parse.* / text.fromstr_display.* / compare.* obligations.
#![allow(missing_docs, unused_imports, clippy::all)]
use super::*;
use crate::compare::ComparisonConfiguration;
use crate::errors::{OperationError, ParseError, ParseErrorEither, ParseErrorSide};
use crate::hash::qratios::FuzzyHashQRatios;
use crate::hash::HexStringPrefix;
use crate::length::FuzzyHashLengthEncoding;
use verif_support::{rec_get, rec_inc, rec_set};

const P_CALLS: usize = 50;
const P_L: usize = 51;       // content key of the left string
const P_R: usize = 52;       // content key of the right string
const P_RES: usize = 55;     // +k: encoded Result<u8, ParseError>
const C_CALLS: usize = 58;
const C_A: usize = 59;
const C_B: usize = 60;
const C_D: usize = 61;

fn enc(r: Result<u8, ParseError>) -> u64 {
    match r {
        Ok(v) => v as u64,
        Err(ParseError::LengthIsTooLarge) => 256, Err(ParseError::InvalidPrefix) => 257, Err(ParseError::InvalidCharacter) => 258,
        Err(ParseError::InvalidStringLength) => 259, Err(ParseError::InvalidChecksum) => 260,
    }
}
fn dec(v: u64) -> Result<u8, ParseError> {
    match v { 256 => Err(ParseError::LengthIsTooLarge), 257 => Err(ParseError::InvalidPrefix), 258 => Err(ParseError::InvalidCharacter),
              259 => Err(ParseError::InvalidStringLength), 260 => Err(ParseError::InvalidChecksum), x => Ok(x as u8) }
}

#[derive(Debug, Clone, PartialEq, Eq)]
pub struct Ghost(u8);
impl core::fmt::Display for Ghost {
    fn fmt(&self, _f: &mut core::fmt::Formatter<'_>) -> core::fmt::Result { unimplemented!() }
}
impl core::str::FromStr for Ghost {
    type Err = ParseError;
    /// an arbitrary *function of the string's content*: the harness fixes its value on the two
    /// strings it passes (slots P_L / P_R hold their bytes); any other string gets a fresh
    /// arbitrary outcome.  Keyed by content, not by call order or address, so the order in which
    /// compare_with parses its arguments (or whether it copies them) is irrelevant.
    fn from_str(s: &str) -> Result<Self, ParseError> {
        rec_inc(P_CALLS);
        let b = s.as_bytes();
        let key = if b.len() == 4 { u32::from_le_bytes([b[0], b[1], b[2], b[3]]) as u64 } else { u64::MAX };
        if key == rec_get(P_L) { return dec(rec_get(P_RES)).map(Ghost); }
        if key == rec_get(P_R) { return dec(rec_get(P_RES + 1)).map(Ghost); }
        any_res().map(Ghost)
    }
}
type RealInner = <FuzzyHashParams<1, 48> as ConstrainedFuzzyHashParams>::InnerFuzzyHashType;
impl FuzzyHashType for Ghost {
    type ChecksumType = <RealInner as FuzzyHashType>::ChecksumType;
    type BodyType = <RealInner as FuzzyHashType>::BodyType;
    const NUMBER_OF_BUCKETS: usize = 48;
    const SIZE_IN_BYTES: usize = 15;
    const LEN_IN_STR_EXCEPT_PREFIX: usize = 30;
    const LEN_IN_STR: usize = 32;
    fn checksum(&self) -> &Self::ChecksumType { unimplemented!() }
    fn length(&self) -> &FuzzyHashLengthEncoding { unimplemented!() }
    fn qratios(&self) -> &FuzzyHashQRatios { unimplemented!() }
    fn body(&self) -> &Self::BodyType { unimplemented!() }
    fn from_str_bytes(_b: &[u8], _p: Option<HexStringPrefix>) -> Result<Self, ParseError> { unimplemented!() }
    fn store_into_bytes(&self, _o: &mut [u8]) -> Result<usize, OperationError> { unimplemented!() }
    fn store_into_str_bytes(&self, _o: &mut [u8], _p: HexStringPrefix) -> Result<usize, OperationError> { unimplemented!() }
    fn max_distance(_c: ComparisonConfiguration) -> u32 { unimplemented!() }
    fn compare_with_config(&self, other: &Self, config: ComparisonConfiguration) -> u32 {
        assert!(config == ComparisonConfiguration::Default, "the helpers compare in the default mode");
        rec_inc(C_CALLS);
        rec_set(C_A, self.0 as u64);
        rec_set(C_B, other.0 as u64);
        if self.0 == other.0 { 0 } else { rec_get(C_D) as u32 }
    }
    fn clear_checksum(&mut self) { unimplemented!() }
}
impl private::SealedFuzzyHashes for Ghost {}
impl ConstrainedFuzzyHashType for Ghost {
    type Params = FuzzyHashParams<1, 48>;
    fn new(_inner: RealInner) -> Self { unimplemented!() }
}

fn any_res() -> Result<u8, ParseError> {
    match kani::any::<u8>() % 6 {
        0 => Err(ParseError::LengthIsTooLarge),
        1 => Err(ParseError::InvalidPrefix),
        2 => Err(ParseError::InvalidCharacter),
        3 => Err(ParseError::InvalidStringLength),
        4 => Err(ParseError::InvalidChecksum),
        _ => Ok(kani::any()),
    }
}

fn any_word() -> [u8; 4] {
    let w: [u8; 4] = kani::any();
    let mut i = 0;
    while i < 4 { kani::assume((w[i] >= b'A' && w[i] <= b'Z') || (w[i] >= b'a' && w[i] <= b'z') || (w[i] >= b'0' && w[i] <= b'9')); i += 1; }
    w
}
// The two strings are SYMBOLIC (4 ASCII letters/digits each: equal, case variants of each other,
// or unrelated) and the ghost parser is an arbitrary *function* of the string (equal strings
// parse equally; it may well be case-sensitive, as the real parser is for the "T1" prefix);
// the ghost distance is arbitrary except that a value is at distance 0 from itself.
// @ob id=compare_easy.compare_with.contract props=C13,C17 rows=plain kind=HC fn=compare_easy::compare_with<T> domain="any hash type: all pairs of 4-character ASCII strings x arbitrary deterministic parser outcomes x arbitrary reflexive distance (strings are otherwise opaque to compare_with)"
#[kani::proof]
#[kani::unwind(6)]
fn ob_compare_with() {
    let (lb, rb) = (any_word(), any_word());
    let l = verif_support::ascii_str(&lb);
    let r = verif_support::ascii_str(&rb);
    let (pl, pr) = (any_res(), any_res());
    kani::assume(lb != rb || pl == pr);                       // the parser is a function
    rec_set(P_RES, enc(pl));
    rec_set(P_RES + 1, enc(pr));
    rec_set(P_L, u32::from_le_bytes(lb) as u64);
    rec_set(P_R, u32::from_le_bytes(rb) as u64);
    let dist: u32 = kani::any();
    if let (Ok(a), Ok(b)) = (pl, pr) { kani::assume(a != b || dist == 0); }   // d(x, x) = 0
    rec_set(C_D, dist as u64);
    let got = crate::compare_with::<Ghost>(l, r);
    match (pl, pr) {
        (Ok(_), Ok(_)) => assert!(got == Ok(dist), "compare_with.returns_the_distance_of_the_two_parsed_hashes"),
        (Err(e), _) => {
            assert!(got == Err(ParseErrorEither(ParseErrorSide::Left, e)), "compare_with.left_error_names_left");
            if let Err(x) = got { assert!(x.side() == ParseErrorSide::Left && x.inner_err() == e, "compare_with.error_accessors"); }
        }
        (Ok(_), Err(e)) => {
            assert!(got == Err(ParseErrorEither(ParseErrorSide::Right, e)), "compare_with.right_error_names_right");
            if let Err(x) = got { assert!(x.side() == ParseErrorSide::Right && x.inner_err() == e, "compare_with.error_accessors"); }
        }
    }
    kani::cover!(got.is_ok());
    kani::cover!(lb != rb && lb[0] == rb[0] + 32, "case variant");
}

// compare() is compare_with::<Tlsh>() and Tlsh is the 128-bucket/1-byte-checksum type: a
// 30-character string is the right length for the 48-bucket type but a length error for Tlsh.
// @ob id=compare_easy.compare.is_tlsh_instance props=C13 rows=plain kind=HC fn=compare_easy::compare domain="all ASCII strings of length 30 (structure obligation: the length gate of the Tlsh instantiation)"
#[kani::proof]
#[kani::unwind(34)]
fn ob_compare_is_tlsh() {
    let s: [u8; 30] = kani::any();
    let mut k = 0;
    while k < 30 { kani::assume(s[k] < 0x80); k += 1; }
    let txt = verif_support::ascii_str(&s);
    assert!(crate::compare(txt, txt) == Err(ParseErrorEither(ParseErrorSide::Left, ParseError::InvalidStringLength)), "compare.is_compare_with_tlsh");
    assert!(crate::compare_with::<crate::hashes::Short>("", txt).is_err(), "compare_with.short.empty_left_is_error");
}
