//! Reference TLSH ("the spec library").  Written from the TLSH algorithm
//! description (Oliver et al. 2013; tlsh_impl.cpp / tlsh_util.cpp semantics),
//! NOT generated from this crate.  Constants are frozen literals (decimal).
//! Only compiled under `cfg(kani)` (Kani verification and Kani concrete playback).
#![allow(dead_code, missing_docs, clippy::all)]

/// Pearson (1990) permutation table == tlsh_util.cpp `v_table` (decimal).
pub const REF_PEARSON: [u8; 256] = [
      1,  87,  49,  12, 176, 178, 102, 166, 121, 193,   6,  84, 249, 230,  44, 163,
     14, 197, 213, 181, 161,  85, 218,  80,  64, 239,  24, 226, 236, 142,  38, 200,
    110, 177, 104, 103, 141, 253, 255,  50,  77, 101,  81,  18,  45,  96,  31, 222,
     25, 107, 190,  70,  86, 237, 240,  34,  72, 242,  20, 214, 244, 227, 149, 235,
     97, 234,  57,  22,  60, 250,  82, 175, 208,   5, 127, 199, 111,  62, 135, 248,
    174, 169, 211,  58,  66, 154, 106, 195, 245, 171,  17, 187, 182, 179,   0, 243,
    132,  56, 148,  75, 128, 133, 158, 100, 130, 126,  91,  13, 153, 246, 216, 219,
    119,  68, 223,  78,  83,  88, 201,  99, 122,  11,  92,  32, 136, 114,  52,  10,
    138,  30,  48, 183, 156,  35,  61,  26, 143,  74, 251,  94, 129, 162,  63, 152,
    170,   7, 115, 167, 241, 206,   3, 150,  55,  59, 151, 220,  90,  53,  23, 131,
    125, 173,  15, 238,  79,  95,  89,  16, 105, 137, 225, 224, 217, 160,  37, 123,
    118,  73,   2, 157,  46, 116,   9, 145, 134, 228, 207, 212, 202, 215,  69, 229,
     27, 188,  67, 124, 168, 252,  42,   4,  29, 108,  21, 247,  19, 205,  39, 203,
    233,  40, 186, 147, 198, 192, 155,  33, 164, 191,  98, 204, 165, 180, 117,  76,
    140,  36, 210, 172,  41,  54, 159,   8, 185, 232, 113, 196, 231,  47, 146, 120,
     51,  65,  28, 144, 254, 221,  93, 189, 194, 139, 112,  43,  71, 109, 184, 209,
];

/// tlsh_util.cpp `topval[]`: inclusive upper bound of each length code.
pub const REF_TOPVAL: [u32; 170] = [
    1, 2, 3, 5, 7, 11, 17, 25, 38, 57, 86, 129, 194, 291, 437, 656,
    854, 1110, 1443, 1876, 2439, 3171,
    3475, 3823, 4205, 4626, 5088, 5597, 6157, 6772, 7450, 8195, 9014, 9916, 10907, 11998, 13198,
    14518, 15970, 17567, 19323, 21256, 23382, 25720, 28292, 31121, 34233, 37656, 41422, 45564,
    50121, 55133, 60646, 66711, 73382, 80721, 88793, 97672, 107439, 118183, 130002, 143002,
    157302, 173032, 190335, 209369, 230306, 253337, 278670, 306538, 337191, 370911, 408002,
    448802, 493682, 543050, 597356, 657091, 722800, 795081, 874589, 962048, 1058252, 1164078,
    1280486, 1408534, 1549388, 1704327, 1874759, 2062236, 2268459, 2495305, 2744836, 3019320,
    3321252, 3653374, 4018711, 4420582, 4862641, 5348905, 5883796, 6472176, 7119394, 7831333,
    8614467, 9475909, 10423501, 11465851, 12612437, 13873681, 15261050, 16787154, 18465870,
    20312458, 22343706, 24578077, 27035886, 29739474, 32713425, 35984770, 39583245, 43541573,
    47895730, 52685306, 57953837, 63749221, 70124148, 77136564, 84850228, 93335252, 102668779,
    112935659, 124229227, 136652151, 150317384, 165349128, 181884040, 200072456, 220079703,
    242087671, 266296456, 292926096, 322218735, 354440623, 389884688, 428873168, 471760495,
    518936559, 570830240, 627913311, 690704607, 759775136, 835752671, 919327967, 1011260767,
    1112386880, 1223623232, 1345985727, 1480584256, 1628642751, 1791507135, 1970657856,
    2167723648, 2384496256, 2622945920, 2885240448, 3173764736, 3491141248, 3840255616,
    4224281216,
];
pub const REF_MAX_LEN: u32 = 4_224_281_216;
pub const REF_SALTS: [u8; 6] = [2, 3, 5, 7, 11, 13];

// ---------------------------------------------------------------- Pearson / bucket mapping
#[inline]
pub fn ref_p(x: u8) -> u8 { REF_PEARSON[x as usize] }
/// b_mapping(salt, i, j, k) of tlsh_util.cpp: four chained table look-ups.
pub fn ref_b_mapping_256(salt: u8, i: u8, j: u8, k: u8) -> u8 {
    let h = ref_p(0 ^ salt);
    let h = ref_p(h ^ i);
    let h = ref_p(h ^ j);
    ref_p(h ^ k)
}
/// 48-bucket build: last look-up through the folded table (>= 240 -> 48, else mod 48).
pub fn ref_fold48(x: u8) -> u8 { if x >= 240 { 48 } else { x % 48 } }
pub fn ref_b_mapping_48(salt: u8, i: u8, j: u8, k: u8) -> u8 { ref_fold48(ref_b_mapping_256(salt, i, j, k)) }
pub fn ref_b_mapping(nbuckets: usize, salt: u8, i: u8, j: u8, k: u8) -> u8 {
    if nbuckets == 48 { ref_b_mapping_48(salt, i, j, k) } else { ref_b_mapping_256(salt, i, j, k) }
}
/// Running checksum: byte 0 is b_mapping(0, cur, prev, ck0) in the variant's own
/// mapping; byte k>0 is the 256-mapping salted with the *new* byte k-1.
pub fn ref_ck_update_1(nbuckets: usize, ck: u8, cur: u8, prev: u8) -> u8 { ref_b_mapping(nbuckets, 0, cur, prev, ck) }
pub fn ref_ck_update_3(nbuckets: usize, ck: [u8; 3], cur: u8, prev: u8) -> [u8; 3] {
    let c0 = ref_b_mapping(nbuckets, 0, cur, prev, ck[0]);
    let c1 = ref_b_mapping_256(c0, cur, prev, ck[1]);
    let c2 = ref_b_mapping_256(c1, cur, prev, ck[2]);
    [c0, c1, c2]
}
pub fn ref_min_nonzero(nbuckets: usize) -> usize { match nbuckets { 48 => 18, 128 => 65, _ => 129 } }

// ---------------------------------------------------------------- lengths
pub fn ref_min_len(nbuckets: usize, conservative: bool) -> u32 {
    match (nbuckets, conservative) { (48, _) => 10, (_, false) => 50, (_, true) => 128 }
}
/// 0 = TooSmall, 1 = ValidWhenOptimistic, 2 = Valid, 3 = TooLarge
pub fn ref_validity(nbuckets: usize, len: u32) -> u8 {
    if len < ref_min_len(nbuckets, false) { 0 }
    else if len < ref_min_len(nbuckets, true) { 1 }
    else if len <= REF_MAX_LEN { 2 }
    else { 3 }
}
pub fn ref_validity_is_err_on(v: u8, conservative: bool) -> bool { v == 0 || v == 3 || (v == 1 && conservative) }
/// `c` is *the* length code of `len`: least index with len <= TOPVAL[c] (witness form).
pub fn ref_is_length_code(len: u32, c: usize) -> bool {
    c < 170 && len <= REF_TOPVAL[c] && (c == 0 || len > REF_TOPVAL[c - 1])
}
pub fn ref_length_code(len: u32) -> Option<u8> {
    let mut i = 0;
    while i < 170 { if len <= REF_TOPVAL[i] { return Some(i as u8); } i += 1; }
    None
}
pub fn ref_range(c: u8) -> Option<(u32, u32)> {
    if c as usize >= 170 { None } else if c == 0 { Some((0, REF_TOPVAL[0])) }
    else { Some((REF_TOPVAL[c as usize - 1] + 1, REF_TOPVAL[c as usize])) }
}

// ---------------------------------------------------------------- finalisation
/// dibit of a bucket against ordered quartiles: strict '>' comparisons.
pub fn ref_dibit_class(v: u32, q1: u32, q2: u32, q3: u32) -> u8 {
    if v > q3 { 3 } else if v > q2 { 2 } else if v > q1 { 1 } else { 0 }
}
pub fn ref_qratio_int(q: u32, q3: u32) -> u8 { (((q as u64 * 100) / q3 as u64) % 16) as u8 }
/// legacy TLSH <= 4.12.0: (unsigned char)((float)(q*100)/(float)q3) % 16, unsigned 32-bit q
pub fn ref_qratio_f32(q: u32, q3: u32) -> u8 { (((q.wrapping_mul(100) as f32) / q3 as f32) as u32 % 16) as u8 }

// ---------------------------------------------------------------- distance
pub fn ref_dibit_dist(x: u8, y: u8) -> u32 {
    let d = if x > y { x - y } else { y - x } as u32;
    if d == 3 { 6 } else { d }
}
pub fn ref_byte_dist(a: u8, b: u8) -> u32 {
    ref_dibit_dist(a & 3, b & 3) + ref_dibit_dist((a >> 2) & 3, (b >> 2) & 3)
        + ref_dibit_dist((a >> 4) & 3, (b >> 4) & 3) + ref_dibit_dist(a >> 6, b >> 6)
}
pub fn ref_body_dist(a: &[u8], b: &[u8]) -> u32 {
    let mut s = 0u32; let mut i = 0;
    while i < a.len() { s += ref_byte_dist(a[i], b[i]); i += 1; }
    s
}
/// mod-n ring distance, n in {16, 256}
pub fn ref_ring(x: u32, y: u32, n: u32) -> u32 {
    let d = if x > y { x - y } else { y - x };
    if d <= n - d { d } else { n - d }
}
pub fn ref_qdist1(a: u8, b: u8) -> u32 { let d = ref_ring(a as u32, b as u32, 16); if d <= 1 { d } else { (d - 1) * 12 } }
pub fn ref_qdist(a: u8, b: u8) -> u32 { ref_qdist1(a & 15, b & 15) + ref_qdist1(a >> 4, b >> 4) }
pub fn ref_ldist(a: u8, b: u8) -> u32 { let d = ref_ring(a as u32, b as u32, 256); if d <= 1 { d } else { d * 12 } }
pub fn ref_ckdist(a: &[u8], b: &[u8]) -> u32 {
    let mut s = 0; let mut i = 0;
    while i < a.len() { if a[i] != b[i] { s += 1; } i += 1; }
    s
}

// ---------------------------------------------------------------- hex text form
pub fn ref_hexval(c: u8) -> Option<u8> {
    match c {
        b'0'..=b'9' => Some(c - b'0'),
        b'a'..=b'f' => Some(c - b'a' + 10),
        b'A'..=b'F' => Some(c - b'A' + 10),
        _ => None,
    }
}
pub fn ref_is_hex(c: u8) -> bool { ref_hexval(c).is_some() }
pub fn ref_hexdigit_upper(n: u8) -> u8 { if n < 10 { b'0' + n } else { b'A' + (n - 10) } }
pub fn ref_upper(c: u8) -> u8 { if c >= b'a' && c <= b'z' { c - 32 } else { c } }

// ---------------------------------------------------------------- body distance, word-shaped
/// sum of the 32 dibit distances of two 64-bit words (dibit i = bits 2i..2i+1)
pub fn ref_sub64(x: u64, y: u64) -> u32 {
    let mut s = 0u32; let mut i = 0;
    while i < 32 { s += ref_dibit_dist(((x >> (2 * i)) & 3) as u8, ((y >> (2 * i)) & 3) as u8); i += 1; }
    s
}
pub fn ref_sub32(x: u32, y: u32) -> u32 {
    let mut s = 0u32; let mut i = 0;
    while i < 16 { s += ref_dibit_dist(((x >> (2 * i)) & 3) as u8, ((y >> (2 * i)) & 3) as u8); i += 1; }
    s
}
