//! Contracts on the hash value type (public wrapper hash::FuzzyHash and, through it,
//! hash::inner::FuzzyHash): hex parser, hex/binary serializers, TryFrom, accessors,
//! quartile(), clear_checksum(), compare_with_config(), max_distance().
//! Generated per variant from /verif/tools (see the @ob lines for the catalogue).
#![allow(missing_docs, unused_imports, clippy::all)]
use crate::errors::{OperationError, ParseError};
use crate::hash::body::FuzzyHashBody;
use crate::hash::checksum::FuzzyHashChecksum;
use crate::hash::HexStringPrefix;
use crate::verif_spec::*;
use crate::{ComparisonConfiguration, FuzzyHashType};

fn any_mode() -> Option<HexStringPrefix> {
    let m: u8 = kani::any();
    match m { 0 => None, 1 => Some(HexStringPrefix::Empty), _ => Some(HexStringPrefix::WithVersion) }
}
fn any_prefix() -> HexStringPrefix { if kani::any() { HexStringPrefix::WithVersion } else { HexStringPrefix::Empty } }

/// classification of a candidate string by the reference definition of "well-formed"
struct WF { len_ok: bool, with_prefix: bool, prefix_ok: bool, digits_ok: bool }
fn ref_wellformed(s: &[u8], mode: Option<HexStringPrefix>, len_full: usize) -> WF {
    let n = s.len();
    let (len_ok, with_prefix) = match mode {
        None => (n == len_full - 2 || n == len_full, n == len_full),
        Some(HexStringPrefix::Empty) => (n == len_full - 2, false),
        Some(HexStringPrefix::WithVersion) => (n == len_full, true),
    };
    let mut w = WF { len_ok, with_prefix, prefix_ok: true, digits_ok: true };
    if !len_ok { return w; }
    let off = if with_prefix { 2 } else { 0 };
    if with_prefix { w.prefix_ok = s[0] == b'T' && s[1] == b'1'; }
    // unrolled by 8 so that the harness's global unwinding bound stays at the real
    // code's own loop bound (BODY+1): CBMC unwinds every loop to the global bound
    let mut i = off;
    while i < n {
        let mut j = 0;
        if i + j < n && !ref_is_hex(s[i + j]) { w.digits_ok = false; } j += 1;
        if i + j < n && !ref_is_hex(s[i + j]) { w.digits_ok = false; } j += 1;
        if i + j < n && !ref_is_hex(s[i + j]) { w.digits_ok = false; } j += 1;
        if i + j < n && !ref_is_hex(s[i + j]) { w.digits_ok = false; } j += 1;
        if i + j < n && !ref_is_hex(s[i + j]) { w.digits_ok = false; } j += 1;
        if i + j < n && !ref_is_hex(s[i + j]) { w.digits_ok = false; } j += 1;
        if i + j < n && !ref_is_hex(s[i + j]) { w.digits_ok = false; } j += 1;
        if i + j < n && !ref_is_hex(s[i + j]) { w.digits_ok = false; }
        i += 8;
    }
    w
}
/// byte k of the binary form denoted by the digit string d (header bytes nibble-swapped)
fn ref_parsed_byte(d: &[u8], k: usize, header: usize) -> u8 {
    let a = ref_hexval(d[2 * k]).unwrap_or(0);
    let b = ref_hexval(d[2 * k + 1]).unwrap_or(0);
    if k < header { b << 4 | a } else { a << 4 | b }
}
/// text character i of the digit part of the canonical text of binary form `raw`
fn ref_text_digit(raw: &[u8], i: usize, header: usize) -> u8 {
    let k = i / 2;
    let hi = raw[k] >> 4;
    let lo = raw[k] & 15;
    let first = if k < header { lo } else { hi };
    let second = if k < header { hi } else { lo };
    ref_hexdigit_upper(if i % 2 == 0 { first } else { second })
}
fn strict_ok(raw: &[u8], ck: usize, buckets: usize) -> (bool, bool) {
    let ck_ok = !(buckets == 48 && ck == 1) || raw[0] <= 48;
    let len_ok = raw[ck] < 170;
    (ck_ok, len_ok)
}

// =================================================================== Short
mod short {
    use super::*;
    type T = crate::hashes::Short;
    const CK: usize = 1;
    const HEADER: usize = 3;
    const SIZE: usize = 15;
    const LEN: usize = 32;
    const NB: usize = 48;
    const STRICT: bool = cfg!(feature = "strict-parser");

    fn bytes_of(h: &T) -> [u8; SIZE] {
        let mut out = [0u8; SIZE];
        let r = h.store_into_bytes(&mut out);
        assert!(r == Ok(SIZE), "store_into_bytes.ok_on_exact_buffer");
        out
    }
    /// any hash value: every field is plain bytes, so all values arise from a byte
    /// array (lenient rows: all arrays; strict rows: the valid ones)
    fn any_hash() -> (T, [u8; SIZE]) {
        let raw: [u8; SIZE] = kani::any();
        let (ck_ok, len_ok) = strict_ok(&raw, CK, NB);
        if STRICT { kani::assume(ck_ok && len_ok); }
        match T::try_from(&raw) {
            Ok(h) => (h, raw),
            Err(_) => { assert!(false, "try_from_array.total_on_valid"); unreachable!() }
        }
    }

    // ---- C05 / C15: the hex parser accepts exactly the well-formed strings, never panics
    // @ob id=parse.from_str_bytes.auto_full.short props=C05,C04,C07,C13,C17,C18 rows=tables quick=tables kind=HC+stub fn=hash::FuzzyHash<1,48>::from_str_bytes domain="prefix mode auto, length LEN (every byte value)"
    #[kani::proof]
    #[kani::unwind(14)]
    #[kani::stub(crate::parse::hex_str::decode_rev_array, crate::verif_models::model_decode_rev_array)]
    #[kani::stub(crate::parse::hex_str::decode_rev_1, crate::verif_models::model_decode_rev_1)]
    #[cfg_attr(not(feature = "opt-simd-parse-hex"), kani::stub(crate::parse::hex_str::decode_array, crate::verif_models::model_decode_array))]
    pub fn ob_parse_auto_full() {
        // accepted lengths are *concrete* slice lengths (a symbolic slice length costs 10-60x)
        check_parse(None, LEN);
    }
    // @ob id=parse.from_str_bytes.auto_bare.short props=C05,C04,C07,C13,C17,C18 rows=tables quick=tables kind=HC+stub fn=hash::FuzzyHash<1,48>::from_str_bytes domain="prefix mode auto, length LEN-2"
    #[kani::proof]
    #[kani::unwind(14)]
    #[kani::stub(crate::parse::hex_str::decode_rev_array, crate::verif_models::model_decode_rev_array)]
    #[kani::stub(crate::parse::hex_str::decode_rev_1, crate::verif_models::model_decode_rev_1)]
    #[cfg_attr(not(feature = "opt-simd-parse-hex"), kani::stub(crate::parse::hex_str::decode_array, crate::verif_models::model_decode_array))]
    pub fn ob_parse_auto_bare() {
        // accepted lengths are *concrete* slice lengths (a symbolic slice length costs 10-60x)
        check_parse(None, LEN - 2);
    }
    // @ob id=parse.from_str_bytes.empty.short props=C05,C04,C07,C13,C17,C18 rows=tables quick=tables kind=HC+stub fn=hash::FuzzyHash<1,48>::from_str_bytes domain="prefix mode Empty, length LEN-2"
    #[kani::proof]
    #[kani::unwind(14)]
    #[kani::stub(crate::parse::hex_str::decode_rev_array, crate::verif_models::model_decode_rev_array)]
    #[kani::stub(crate::parse::hex_str::decode_rev_1, crate::verif_models::model_decode_rev_1)]
    #[cfg_attr(not(feature = "opt-simd-parse-hex"), kani::stub(crate::parse::hex_str::decode_array, crate::verif_models::model_decode_array))]
    pub fn ob_parse_empty() {
        // accepted lengths are *concrete* slice lengths (a symbolic slice length costs 10-60x)
        check_parse(Some(HexStringPrefix::Empty), LEN - 2);
    }
    // @ob id=parse.from_str_bytes.with.short props=C05,C04,C07,C13,C17,C18 rows=tables quick=tables kind=HC+stub fn=hash::FuzzyHash<1,48>::from_str_bytes domain="prefix mode WithVersion, length LEN"
    #[kani::proof]
    #[kani::unwind(14)]
    #[kani::stub(crate::parse::hex_str::decode_rev_array, crate::verif_models::model_decode_rev_array)]
    #[kani::stub(crate::parse::hex_str::decode_rev_1, crate::verif_models::model_decode_rev_1)]
    #[cfg_attr(not(feature = "opt-simd-parse-hex"), kani::stub(crate::parse::hex_str::decode_array, crate::verif_models::model_decode_array))]
    pub fn ob_parse_with() {
        // accepted lengths are *concrete* slice lengths (a symbolic slice length costs 10-60x)
        check_parse(Some(HexStringPrefix::WithVersion), LEN);
    }
    // @ob id=parse.from_str_bytes.wronglen.short props=C05,C04,C07,C13,C17,C18 rows=tables quick=tables kind=HC+stub fn=hash::FuzzyHash<1,48>::from_str_bytes domain="every other (mode, length 0..=LEN+2) combination (symbolic); longer inputs only reach len()"
    #[kani::proof]
    #[kani::unwind(14)]
    #[kani::stub(crate::parse::hex_str::decode_rev_array, crate::verif_models::model_decode_rev_array)]
    #[kani::stub(crate::parse::hex_str::decode_rev_1, crate::verif_models::model_decode_rev_1)]
    #[cfg_attr(not(feature = "opt-simd-parse-hex"), kani::stub(crate::parse::hex_str::decode_array, crate::verif_models::model_decode_array))]
    pub fn ob_parse_wronglen() {
        // accepted lengths are *concrete* slice lengths (a symbolic slice length costs 10-60x)
        let n: usize = kani::any();
        kani::assume(n <= LEN + 2);
        let m = any_mode();
        kani::assume(!((m != Some(HexStringPrefix::WithVersion) && n == LEN - 2) || (m != Some(HexStringPrefix::Empty) && n == LEN)));
        check_parse(m, n);
    }
    fn check_parse(mode: Option<HexStringPrefix>, n: usize) {
        let buf: [u8; LEN + 2] = kani::any();
        let s = &buf[..n];
        let w = ref_wellformed(s, mode, LEN);
        let r = T::from_str_bytes(s, mode);
        let lenient_ok = w.len_ok && w.prefix_ok && w.digits_ok;
        match r {
            Ok(h) => {
                assert!(lenient_ok, "parse.accepts_only_wellformed");
                let raw = bytes_of(&h);
                let off = if w.with_prefix { 2 } else { 0 };
                let k: usize = kani::any();
                kani::assume(k < SIZE);
                assert!(raw[k] == ref_parsed_byte(&s[off..], k, HEADER), "parse.value_is_denoted_value");
                if STRICT {
                    let (ck_ok, len_ok) = strict_ok(&raw, CK, NB);
                    assert!(ck_ok && len_ok, "parse.strict.accepts_only_valid");
                }
            }
            Err(e) => {
                assert!((e == ParseError::InvalidStringLength) == !w.len_ok, "parse.length_error_iff_wrong_length");
                if !STRICT { assert!(!lenient_ok, "parse.rejects_only_malformed"); }
                if e == ParseError::InvalidPrefix { assert!(w.len_ok && !w.prefix_ok, "parse.prefix_error_applies"); }
                if e == ParseError::InvalidCharacter { assert!(w.len_ok && !w.digits_ok, "parse.char_error_applies"); }
                assert!(e == ParseError::InvalidStringLength || e == ParseError::InvalidPrefix || e == ParseError::InvalidCharacter
                    || (STRICT && (e == ParseError::InvalidChecksum || e == ParseError::LengthIsTooLarge)), "parse.error_kind");
                if STRICT && lenient_ok {
                    // rejected by the strict layer only: the reason must apply
                    let off = if w.with_prefix { 2 } else { 0 };
                    let d = &s[off..];
                    let ck0 = ref_parsed_byte(d, 0, HEADER);
                    let lv = ref_parsed_byte(d, CK, HEADER);
                    let ck_bad = NB == 48 && CK == 1 && ck0 > 48;
                    let len_bad = lv >= 170;
                    assert!(ck_bad || len_bad, "parse.strict.rejects_only_invalid");
                    if e == ParseError::InvalidChecksum { assert!(ck_bad, "parse.strict.checksum_error_applies"); }
                    if e == ParseError::LengthIsTooLarge { assert!(len_bad, "parse.strict.length_error_applies"); }
                    assert!(e == ParseError::InvalidChecksum || e == ParseError::LengthIsTooLarge, "parse.strict.error_kind");
                }
            }
        }
        kani::cover!(!w.len_ok || r.is_ok(), "accepting path");
        kani::cover!(!w.len_ok || r == Err(ParseError::InvalidCharacter), "bad character path");
        kani::cover!(!w.len_ok || !w.with_prefix || r == Err(ParseError::InvalidPrefix), "bad prefix path");
        kani::cover!(w.len_ok || r == Err(ParseError::InvalidStringLength), "wrong length path");
    }

    // ---- C04 / C14: hex serializer: size gate, canonical text, frame
    // @ob id=format.store_into_str_bytes.long3 props=C04,C14,C07,C17,C18 rows=tables quick=- kind=HC+stub fn=hash::FuzzyHash<3,256>::store_into_str_bytes domain="all hash values x both prefixes x buffer length 0..=140+8 with arbitrary prior content"
    #[kani::proof]
    #[kani::unwind(66)]
    #[kani::stub(crate::parse::hex_str::encode_rev_array, crate::verif_models::model_encode_rev_array)]
    #[kani::stub(crate::parse::hex_str::encode_rev_1, crate::verif_models::model_encode_rev_1)]
    #[cfg_attr(not(feature = "opt-simd-convert-hex"), kani::stub(crate::parse::hex_str::encode_array, crate::verif_models::model_encode_array))]
    pub fn ob_format() {
        check_format(HexStringPrefix::WithVersion);
        check_format(HexStringPrefix::Empty);
    }
    fn check_format(prefix: HexStringPrefix) {
        let (h, raw) = any_hash();
        let mut buf: [u8; LEN + 8] = kani::any();
        let before = buf;
        let n: usize = kani::any();
        kani::assume(n <= LEN + 8);
        let need = if prefix == HexStringPrefix::WithVersion { LEN } else { LEN - 2 };
        let r = h.store_into_str_bytes(&mut buf[..n], prefix);
        if n < need {
            assert!(r == Err(OperationError::BufferIsTooSmall), "format.too_small_iff_shorter");
        } else {
            assert!(r == Ok(need), "format.returns_advertised_size");
            let i: usize = kani::any();
            kani::assume(i < LEN + 8);
            if i >= need {
                assert!(buf[i] == before[i], "format.bytes_beyond_untouched");
            } else if prefix == HexStringPrefix::WithVersion && i < 2 {
                assert!(buf[i] == if i == 0 { b'T' } else { b'1' }, "format.prefix_T1");
            } else {
                let off = if prefix == HexStringPrefix::WithVersion { 2 } else { 0 };
                assert!(buf[i] == ref_text_digit(&raw, i - off, HEADER), "format.text_is_canonical");
                assert!((buf[i] >= b'0' && buf[i] <= b'9') || (buf[i] >= b'A' && buf[i] <= b'F'), "format.uppercase_hex_only");
            }
        }
        assert!(T::LEN_IN_STR == LEN && T::LEN_IN_STR_EXCEPT_PREFIX == LEN - 2 && T::SIZE_IN_BYTES == SIZE && T::NUMBER_OF_BUCKETS == NB, "format.advertised_constants");
        kani::cover!(n == need);
        kani::cover!(n + 1 == need);
    }

    // ---- C04: format then parse is the identity (every entry point mode)
    // @ob id=roundtrip.format_parse.long3 props=C04,C07,C15 rows=tables,strict quick=- quick.C15=strict kind=HC+stub fn=hash::FuzzyHash<3,256>::{store_into_str_bytes,from_str_bytes} domain="all hash values x both prefixes x matching/auto prefix mode"
    #[kani::proof]
    #[kani::unwind(66)]
    #[kani::stub(crate::parse::hex_str::decode_rev_array, crate::verif_models::model_decode_rev_array)]
    #[kani::stub(crate::parse::hex_str::decode_rev_1, crate::verif_models::model_decode_rev_1)]
    #[cfg_attr(not(feature = "opt-simd-parse-hex"), kani::stub(crate::parse::hex_str::decode_array, crate::verif_models::model_decode_array))]
    #[kani::stub(crate::parse::hex_str::encode_rev_array, crate::verif_models::model_encode_rev_array)]
    #[kani::stub(crate::parse::hex_str::encode_rev_1, crate::verif_models::model_encode_rev_1)]
    #[cfg_attr(not(feature = "opt-simd-convert-hex"), kani::stub(crate::parse::hex_str::encode_array, crate::verif_models::model_encode_array))]
    pub fn ob_roundtrip_text() {
        check_roundtrip_text(HexStringPrefix::WithVersion);
        check_roundtrip_text(HexStringPrefix::Empty);
    }
    fn check_roundtrip_text(prefix: HexStringPrefix) {
        let (h, raw) = any_hash();
        let mut buf = [0u8; LEN];
        let need = if prefix == HexStringPrefix::WithVersion { LEN } else { LEN - 2 };
        assert!(h.store_into_str_bytes(&mut buf, prefix) == Ok(need), "roundtrip.format_ok");
        check_back(&buf[..need], None, &h, &raw);
        check_back(&buf[..need], Some(prefix), &h, &raw);
    }
    fn check_back(text: &[u8], mode: Option<HexStringPrefix>, h: &T, raw: &[u8; SIZE]) {
        match T::from_str_bytes(text, mode) {
            Ok(h2) => {
                let raw2 = bytes_of(&h2);
                let k: usize = kani::any();
                kani::assume(k < SIZE);
                assert!(raw2[k] == raw[k], "roundtrip.parse_format_identity");
            }
            Err(_) => assert!(false, "roundtrip.own_text_is_accepted"),
        }
    }

    // ---- C04: every accepted string re-formats to its own upper-case, prefix-normalised form
    // @ob id=canonical.parse_format.long3 props=C04,C07 rows=tables quick=- kind=HC+stub fn=hash::FuzzyHash<3,256>::{from_str_bytes,store_into_str_bytes} domain="all accepted strings (either prefix form, any letter case)"
    #[kani::proof]
    #[kani::unwind(66)]
    #[kani::stub(crate::parse::hex_str::decode_rev_array, crate::verif_models::model_decode_rev_array)]
    #[kani::stub(crate::parse::hex_str::decode_rev_1, crate::verif_models::model_decode_rev_1)]
    #[cfg_attr(not(feature = "opt-simd-parse-hex"), kani::stub(crate::parse::hex_str::decode_array, crate::verif_models::model_decode_array))]
    #[kani::stub(crate::parse::hex_str::encode_rev_array, crate::verif_models::model_encode_rev_array)]
    #[kani::stub(crate::parse::hex_str::encode_rev_1, crate::verif_models::model_encode_rev_1)]
    #[cfg_attr(not(feature = "opt-simd-convert-hex"), kani::stub(crate::parse::hex_str::encode_array, crate::verif_models::model_encode_array))]
    pub fn ob_canonical() {
        check_canonical(true);
        check_canonical(false);
    }
    fn check_canonical(with: bool) {
        let s: [u8; LEN] = kani::any();
        let (off, n) = if with { (2, LEN) } else { (0, LEN - 2) };
        if let Ok(h) = T::from_str_bytes(&s[..n], None) {
            let mut out = [0u8; LEN];
            assert!(h.store_into_str_bytes(&mut out, HexStringPrefix::WithVersion) == Ok(LEN), "canonical.format_ok");
            let i: usize = kani::any();
            kani::assume(i < LEN - 2);
            assert!(out[0] == b'T' && out[1] == b'1', "canonical.prefix_normalised");
            assert!(out[2 + i] == ref_upper(s[off + i]), "canonical.reformat_is_uppercase_of_input");
            kani::cover!(s[off + i] >= b'a' && s[off + i] <= b'f');
        }
    }

    // ---- C06 / C14: binary form
    // @ob id=binary.store_try_from.long3 props=C06,C14,C07,C15,C17,C18 rows=tables,strict quick=- quick.C15=strict kind=HC fn=hash::FuzzyHash<3,256>::{store_into_bytes,try_from} domain="all byte arrays of the right size; all slices of length 0..=69+8; buffers of length 0..=69+8 with arbitrary content"
    #[kani::proof]
    #[kani::unwind(71)]
    pub fn ob_binary() {
        // (1) array -> hash -> bytes is the identity (lenient); strict: accepted iff valid
        let raw: [u8; SIZE] = kani::any();
        let (ck_ok, len_ok) = strict_ok(&raw, CK, NB);
        let r = T::try_from(&raw);
        match &r {
            Ok(h) => {
                if STRICT { assert!(ck_ok && len_ok, "binary.strict.accepts_only_valid"); }
                // (2) store: gate, content, frame
                let mut buf: [u8; SIZE + 8] = kani::any();
                let before = buf;
                let n: usize = kani::any();
                kani::assume(n <= SIZE + 8);
                let s = h.store_into_bytes(&mut buf[..n]);
                if n < SIZE {
                    assert!(s == Err(OperationError::BufferIsTooSmall), "binary.too_small_iff_shorter");
                } else {
                    assert!(s == Ok(SIZE), "binary.returns_size");
                    let i: usize = kani::any();
                    kani::assume(i < SIZE + 8);
                    if i < SIZE { assert!(buf[i] == raw[i], "binary.store_try_from_identity"); }
                    else { assert!(buf[i] == before[i], "binary.bytes_beyond_untouched"); }
                }
                // field order and accessors
                let k: usize = kani::any();
                kani::assume(k < SIZE);
                if k < CK { assert!(h.checksum().data()[k] == raw[k], "binary.field.checksum"); }
                else if k == CK { assert!(h.length().value() == raw[CK], "binary.field.length"); }
                else if k == CK + 1 {
                    assert!(h.qratios().value() == raw[CK + 1], "binary.field.qratios");
                    assert!(h.qratios().q1ratio() == raw[CK + 1] & 15 && h.qratios().q2ratio() == raw[CK + 1] >> 4, "binary.field.q2_high_nibble");
                } else { assert!(h.body().data()[k - CK - 2] == raw[k], "binary.field.body"); }
                // (3) hash -> bytes -> hash is the identity
                match T::try_from(&raw[..]) {
                    Ok(h2) => assert!(h2 == *h, "binary.try_from_slice_eq_array"),
                    Err(_) => assert!(false, "binary.try_from_slice_total"),
                }
            }
            Err(e) => {
                assert!(STRICT, "binary.lenient_accepts_every_array");
                assert!(!(ck_ok && len_ok), "binary.strict.rejects_only_invalid");
                if *e == ParseError::InvalidChecksum { assert!(!ck_ok, "binary.strict.checksum_error_applies"); }
                if *e == ParseError::LengthIsTooLarge { assert!(!len_ok, "binary.strict.length_error_applies"); }
                assert!(*e == ParseError::InvalidChecksum || *e == ParseError::LengthIsTooLarge, "binary.strict.error_kind");
                match T::try_from(&raw[..]) {
                    Ok(_) => assert!(false, "binary.try_from_slice_agrees"),
                    Err(e2) => assert!(e2 == ParseError::InvalidChecksum || e2 == ParseError::LengthIsTooLarge, "binary.try_from_slice_error_kind"),
                }
            }
        }
        // (4) wrong-length slices are a length error
        let sl: [u8; SIZE + 8] = kani::any();
        let m: usize = kani::any();
        kani::assume(m <= SIZE + 8 && m != SIZE);
        assert!(T::try_from(&sl[..m]) == Err(ParseError::InvalidStringLength), "binary.wrong_length_is_length_error");
        kani::cover!(r.is_ok());
    }

    // ---- C06: quartile(i) and clear_checksum()
    // @ob id=accessors.quartile_clear.long3 props=C06,C08,C17,C18 rows=tables quick=- kind=HC fn=hash::FuzzyHash<3,256>::{body().quartile,clear_checksum} domain="all hash values x all bucket indices < 256"
    #[kani::proof]
    #[kani::unwind(71)]
    pub fn ob_accessors() {
        let (h, raw) = any_hash();
        let i: usize = kani::any();
        kani::assume(i < NB);
        let q = h.body().quartile(i);
        let body = &raw[CK + 2..];
        assert!(q == (body[body.len() - 1 - i / 4] >> (2 * (i % 4))) & 3, "accessors.quartile.eq_ref");
        let mut c = h;
        c.clear_checksum();
        let out = bytes_of(&c);
        let k: usize = kani::any();
        kani::assume(k < SIZE);
        if k < CK { assert!(out[k] == 0, "accessors.clear_checksum.all_checksum_bytes_zero"); }
        else { assert!(out[k] == raw[k], "accessors.clear_checksum.nothing_else_changes"); }
    }
    // out-of-range index: only a clean panic (the documented one) or a value; never a memory-safety failure
    // @ob id=accessors.quartile_oob.long3 props=C06,C17 rows=tables,unsafe quick=- kind=HC fn=hash::FuzzyHash<3,256>::body().quartile domain="all hash values x all usize indices >= 256" allow="assertion failed: index < Self::NUM_BUCKETS"
    #[kani::proof]
    pub fn ob_quartile_oob() {
        let (h, _raw) = any_hash();
        let i: usize = kani::any();
        kani::assume(i >= NB);
        let _ = h.body().quartile(i);
    }
}
