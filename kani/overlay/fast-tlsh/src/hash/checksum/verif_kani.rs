//! Contracts: InnerChecksum::update (1-/3-byte x 48/128/256), is_valid, clear, from_raw/data
#![allow(missing_docs)]
use super::inner::InnerChecksum;
use super::{FuzzyHashChecksum, FuzzyHashChecksumData};
use crate::verif_spec::*;

macro_rules! ck1 {
    ($name:ident, $n:literal) => {
        #[kani::proof]
        fn $name() {
            let c0: u8 = kani::any();
            let (cur, prev): (u8, u8) = kani::any();
            let mut c = FuzzyHashChecksumData::<1, $n>::from_raw(&[c0]);
            c.update(cur, prev);
            assert!(c.data()[0] == ref_ck_update_1($n, c0, cur, prev), "checksum.update1.eq_ref");
            if $n == 48 {
                assert!(c.data()[0] <= 48, "checksum.update1.range48");
                assert!(c.is_valid(), "checksum.update1.valid_after_update");
            }
            let v: u8 = kani::any();
            let w = FuzzyHashChecksumData::<1, $n>::from_raw(&[v]);
            assert!(w.is_valid() == ($n != 48 || v <= 48), "checksum.is_valid.eq_ref");
            let mut z = w;
            z.clear();
            assert!(z.data()[0] == 0, "checksum.clear.zero");
            assert!(FuzzyHashChecksumData::<1, $n>::new().data()[0] == 0, "checksum.new.zero");
        }
    };
}
// @ob id=checksum.update1.48 props=C01,C06,C15 rows=tables,plain quick=tables kind=HC fn=hash::checksum::FuzzyHashChecksumData<1,48>::{update,is_valid,clear,new} domain="all 2^24 (ck,cur,prev)"
ck1!(ob_ck1_48, 48);
// @ob id=checksum.update1.128 props=C01,C06,C15 rows=tables,plain quick=tables kind=HC fn=hash::checksum::FuzzyHashChecksumData<1,128>::{update,is_valid,clear,new} domain="all 2^24"
ck1!(ob_ck1_128, 128);
// @ob id=checksum.update1.256 props=C01,C06,C15 rows=tables,plain quick=tables kind=HC fn=hash::checksum::FuzzyHashChecksumData<1,256>::{update,is_valid,clear,new} domain="all 2^24"
ck1!(ob_ck1_256, 256);

macro_rules! ck3 {
    ($name:ident, $n:literal) => {
        #[kani::proof]
        fn $name() {
            let c0: [u8; 3] = kani::any();
            let (cur, prev): (u8, u8) = kani::any();
            let mut c = FuzzyHashChecksumData::<3, $n>::from_raw(&c0);
            c.update(cur, prev);
            let e = ref_ck_update_3($n, c0, cur, prev);
            assert!(c.data()[0] == e[0] && c.data()[1] == e[1] && c.data()[2] == e[2], "checksum.update3.eq_ref");
            let w = FuzzyHashChecksumData::<3, $n>::from_raw(&c0);
            assert!(w.is_valid(), "checksum.is_valid3");
            assert!(w.data()[0] == c0[0] && w.data()[1] == c0[1] && w.data()[2] == c0[2], "checksum.from_raw.data");
            let mut z = w;
            z.clear();
            assert!(z.data()[0] == 0 && z.data()[1] == 0 && z.data()[2] == 0, "checksum.clear3.all_bytes");
            let n = FuzzyHashChecksumData::<3, $n>::new();
            assert!(n.data()[0] == 0 && n.data()[1] == 0 && n.data()[2] == 0, "checksum.new3.zero");
        }
    };
}
// @ob id=checksum.update3.128 props=C01,C06,C15 rows=tables,plain quick=tables kind=HC fn=hash::checksum::FuzzyHashChecksumData<3,128>::{update,is_valid,clear,new} domain="all 2^40 (ck,cur,prev)"
ck3!(ob_ck3_128, 128);
// @ob id=checksum.update3.256 props=C01,C06,C15 rows=tables,plain quick=tables kind=HC fn=hash::checksum::FuzzyHashChecksumData<3,256>::{update,is_valid,clear,new} domain="all 2^40"
ck3!(ob_ck3_256, 256);
