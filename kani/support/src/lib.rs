//! The two pieces of `unsafe` the Kani contract stubs need, kept outside the crate
//! under verification so that its own `forbid(unsafe_code)` stays exactly as it is:
//!  * view a `&mut [T]` with 4-byte `T` as `&mut [u32]` (the model of the generic
//!    `<[T]>::select_nth_unstable` must read and havoc `u32` buckets);
//!  * a small global record (call logs of recording models).
#![no_std]

/// # Panics
/// if `T` is not 4 bytes wide and 4-aligned (only ever instantiated with `u32`).
pub fn as_u32_slice_mut<T>(s: &mut [T]) -> &mut [u32] {
    assert!(core::mem::size_of::<T>() == 4 && core::mem::align_of::<T>() == 4);
    unsafe { core::slice::from_raw_parts_mut(s.as_mut_ptr() as *mut u32, s.len()) }
}
pub fn addr_of_slice<T>(s: &[T]) -> usize { s.as_ptr() as usize }

pub const SLOTS: usize = 64;
static mut REC: [u64; SLOTS] = [0; SLOTS];
pub fn rec_set(slot: usize, v: u64) { unsafe { REC[slot] = v; } }
pub fn rec_get(slot: usize) -> u64 { unsafe { REC[slot] } }
pub fn rec_inc(slot: usize) -> u64 { unsafe { let v = REC[slot]; REC[slot] = v + 1; v } }

/// Contract model of `core::str::from_utf8` for the only case the Display obligation
/// needs: ASCII input is valid UTF-8 and is returned as is.  It ASSERTS that every byte
/// is ASCII -- which is also exactly the precondition under which the crate's
/// `from_utf8_unchecked` (feature `unsafe`) is sound.
pub fn ascii_from_utf8(v: &[u8]) -> Result<&str, core::str::Utf8Error> {
    let mut i = 0;
    while i < v.len() {
        assert!(v[i] < 0x80, "non-ASCII byte handed to from_utf8 / from_utf8_unchecked");
        i += 1;
    }
    Ok(unsafe { core::str::from_utf8_unchecked(v) })
}
/// View ASCII bytes as &str (harness helper; asserts ASCII).
pub fn ascii_str(v: &[u8]) -> &str { ascii_from_utf8(v).unwrap() }

/// Model of `std_detect::detect::cache::test`: the CPU's feature set is an arbitrary but
/// fixed 128-bit mask chosen by the harness (slots 62/63), so a dispatcher obligation
/// covers every detection outcome.
pub fn model_detect_test(bit: u32) -> bool {
    let b = bit & 127;
    if b < 64 { (rec_get(62) >> b) & 1 == 1 } else { (rec_get(63) >> (b - 64)) & 1 == 1 }
}

/// Stubs for the global allocator entry points: a core operation that reaches one of
/// them fails its obligation ("core operations never allocate").
pub unsafe fn no_alloc(_l: core::alloc::Layout) -> *mut u8 { panic!("heap allocation reached") }
pub unsafe fn no_realloc(_p: *mut u8, _l: core::alloc::Layout, _n: usize) -> *mut u8 { panic!("heap reallocation reached") }

/// Model of `core::str::from_utf8_unchecked` that makes its safety precondition an
/// obligation: the bytes must be valid UTF-8 - here, ASCII (all the crate ever passes).
pub unsafe fn checked_from_utf8_unchecked(v: &[u8]) -> &str {
    let mut i = 0;
    while i < v.len() {
        assert!(v[i] < 0x80, "from_utf8_unchecked called on non-ASCII bytes (undefined behaviour)");
        i += 1;
    }
    core::mem::transmute(v)
}

/// Wrapping lane-wise models of the x86 integer add / sub / multiply intrinsics (Intel SDM:
/// PADDD, PSUBD, PMULLD, PADDW and their 256-bit forms are modular arithmetic per lane).
/// Kani evaluates stdarch's `simd_add/sub/mul` with an overflow check followed by an ASSUME,
/// which silently removes every input on which a lane wraps from the proof; with these models
/// in place of the intrinsics no input is excluded.
#[cfg(target_arch = "x86_64")]
pub mod x86 {
    use core::arch::x86_64::*;
    macro_rules! lanewise {
        ($name:ident, $v:ty, $lane:ty, $n:literal, $op:ident) => {
            pub fn $name(a: $v, b: $v) -> $v {
                unsafe {
                    let a: [$lane; $n] = core::mem::transmute(a);
                    let b: [$lane; $n] = core::mem::transmute(b);
                    let mut r = [0 as $lane; $n];
                    let mut i = 0;
                    while i < $n { r[i] = a[i].$op(b[i]); i += 1; }
                    core::mem::transmute(r)
                }
            }
        };
    }
    lanewise!(mm_add_epi32, __m128i, u32, 4, wrapping_add);
    lanewise!(mm_sub_epi32, __m128i, u32, 4, wrapping_sub);
    lanewise!(mm_mullo_epi32, __m128i, u32, 4, wrapping_mul);
    lanewise!(mm_add_epi16, __m128i, u16, 8, wrapping_add);
    lanewise!(mm256_add_epi32, __m256i, u32, 8, wrapping_add);
    lanewise!(mm256_sub_epi32, __m256i, u32, 8, wrapping_sub);
    lanewise!(mm256_mullo_epi32, __m256i, u32, 8, wrapping_mul);
}

/// Models of the three intrinsics Kani cannot execute at all (bucket aggregation back ends),
/// written from the Intel SDM; like the wrapping models above they are ASSUMED contracts,
/// validated natively against the real instructions by /verif/kani/validate at set-up.
#[cfg(target_arch = "x86_64")]
pub mod x86_shuffle {
    use core::arch::x86_64::*;
    /// PACKSSWB: 16 -> 8 bit signed saturation, lanes of `a` then lanes of `b`
    pub unsafe fn mm_packs_epi16(a: __m128i, b: __m128i) -> __m128i {
        let a: [i16; 8] = core::mem::transmute(a);
        let b: [i16; 8] = core::mem::transmute(b);
        let mut r = [0i8; 16];
        let mut i = 0;
        while i < 8 {
            r[i] = if a[i] > 127 { 127 } else if a[i] < -128 { -128 } else { a[i] as i8 };
            r[i + 8] = if b[i] > 127 { 127 } else if b[i] < -128 { -128 } else { b[i] as i8 };
            i += 1;
        }
        core::mem::transmute(r)
    }
    /// PSHUFB: bit 7 of the control byte zeroes, low 4 bits select
    pub unsafe fn mm_shuffle_epi8(a: __m128i, b: __m128i) -> __m128i {
        let a: [u8; 16] = core::mem::transmute(a);
        let b: [u8; 16] = core::mem::transmute(b);
        let mut r = [0u8; 16];
        let mut i = 0;
        while i < 16 { r[i] = if b[i] & 0x80 != 0 { 0 } else { a[(b[i] & 15) as usize] }; i += 1; }
        core::mem::transmute(r)
    }
    /// VPSHUFB: PSHUFB per 128-bit lane
    pub unsafe fn mm256_shuffle_epi8(a: __m256i, b: __m256i) -> __m256i {
        let a: [u8; 32] = core::mem::transmute(a);
        let b: [u8; 32] = core::mem::transmute(b);
        let mut r = [0u8; 32];
        let mut i = 0;
        while i < 32 { let lane = i & 16; r[i] = if b[i] & 0x80 != 0 { 0 } else { a[lane + (b[i] & 15) as usize] }; i += 1; }
        core::mem::transmute(r)
    }
}
