"""Counterexample replay: Kani concrete playback against the real, unstubbed code."""
import hashlib
import json
import os
import re

from . import common
from .common import VERIF, CRATE, ROWS, sh, log, write_json

REPLAY_DIR = os.path.join(VERIF, "replay")


def _rid(rec):
    h = hashlib.sha256((rec["name"] + json.dumps(rec.get("failed_checks", []), sort_keys=True)).encode()).hexdigest()[:10]
    return re.sub(r"[^A-Za-z0-9_.@-]", "_", rec["name"]) + "." + h + ".json"


def write_minimal(rec, prop):
    path = os.path.join(REPLAY_DIR, _rid(rec))
    write_json(path, {
        "property": prop, "obligation": rec["name"], "backend": rec.get("backend"),
        "config": rec.get("config"), "harness": rec.get("harness"), "cmd": rec.get("cmd"),
        "failed_checks": rec.get("failed_checks", []), "verifier_output": rec.get("verifier_output", rec.get("reason", "")),
        "counterexample": rec.get("counterexample"), "playback_test": rec.get("playback_test"),
        "replay_outcome": rec.get("replay_outcome", "no-failing-input-found"),
        "native_output": rec.get("native_output"), "search": rec.get("search"),
        "fidelity_report": rec.get("fidelity_report"),
    })
    rec["replay_path"] = path
    return path


def produce(sc, rec, prop, overlay_applied):
    if rec["backend"].startswith("kani"):
        if rec.get("replay_mode") == "none":
            rec["replay_outcome"] = "no-failing-input-found"
            rec["verifier_output"] = rec.get("reason", "") + \
                " [replay=none: this harness observes the call through recording/contract stubs, so a native run of the harness is not meaningful]"
            _kani_counterexample(sc, rec)
        else:
            _kani_counterexample(sc, rec)
            if rec.get("playback_test"):
                out, failed = _native_playback(sc, rec)
                rec["native_output"] = out[-3000:]
                rec["replay_outcome"] = "reproduced" if failed else "not-reproduced"
            else:
                rec["replay_outcome"] = "no-failing-input-found"
    else:
        rec.setdefault("replay_outcome", "no-failing-input-found")
    write_minimal(rec, prop)


def _kani_counterexample(sc, rec):
    row = rec["config"]
    cmd = ["cargo", "kani", "--manifest-path", os.path.join(sc.repo, "Cargo.toml"), "-p", CRATE,
           "--no-default-features", "--features", ROWS[row], "-Z", "stubbing", "-Z", "function-contracts",
           "-Z", "unstable-options", "-Z", "concrete-playback", "--concrete-playback=print",
           "--target-dir", os.path.join(sc.root, "target-" + row),
           "--exact", "--harness", rec["harness"], "--harness-timeout", "1800s"]
    m = re.search(r"--cbmc-args (.*)$", rec.get("cmd", ""))
    if m:
        cmd += ["--cbmc-args"] + m.group(1).split()
    rc, out, secs = sh(cmd, cwd=sc.root, timeout=2400)
    blocks = re.findall(r"```\n(.*?)```", out, re.S)
    # Kani also emits playback tests for satisfied cover properties: pick the test that
    # belongs to a *failed check* of this obligation (by description), else any non-cover one
    descs = [f.get("description", "") for f in rec.get("failed_checks", [])]
    chosen = None
    for b in blocks:
        m = re.search(r"/// Check for `(\w+)`: \"+(.*?)\"+\s*$", b, re.M)
        kind, d = (m.group(1), m.group(2)) if m else ("", "")
        if kind == "cover":
            continue
        if any(d and (d in x or x in d) for x in descs):
            chosen = b
            break
        if chosen is None:
            chosen = b
    if chosen:
        test = chosen
        rec["playback_test"] = test
        vals = re.findall(r"//\s*(.*)\n\s*vec!\[([0-9, ]*)\]", test)
        rec["counterexample"] = [{"value": v.strip(), "bytes": [int(x) for x in b.replace(" ", "").split(",") if x]} for v, b in vals]


def _native_playback(sc, rec, repo=None):
    repo = repo or sc.repo
    test = rec["playback_test"]
    name = re.search(r"fn (kani_concrete_playback_\w+)\(", test).group(1)
    # the harness lives in <file module>::verif_kani[::inline::mods]::fn ; the test is appended
    # to the end of the file and names the harness by its path relative to the file module
    parts = rec["harness"].split("::")
    vk = parts.index("verif_kani")
    modfile = os.path.join(repo, CRATE, "src", *parts[:vk + 1]) + ".rs"
    rel = "::".join(parts[vk + 1:])
    test = re.sub(r"concrete_playback_run\(concrete_vals, \w+\)", "concrete_playback_run(concrete_vals, %s)" % rel, test)
    with open(modfile, "a") as fh:
        fh.write("\n" + test + "\n")
    row = rec["config"]
    cmd = ["cargo", "kani", "playback", "--manifest-path", os.path.join(repo, "Cargo.toml"), "-p", CRATE,
           "--no-default-features", "--features", ROWS[row], "-Z", "concrete-playback", "-Z", "stubbing",
           "-Z", "function-contracts", "--lib",
           "--", name]
    # test filter is a substring on the full path; the generated name is unique
    rc, out, secs = sh(cmd, cwd=os.path.dirname(repo), timeout=1800,
                       env={"CARGO_TARGET_DIR": os.path.join(os.path.dirname(repo), "target-playback")})
    ran = re.search(r"test result: (\w+)\. (\d+) passed; (\d+) failed", out)
    if not ran:
        raise RuntimeError("native playback did not run: " + out[-1500:])
    failed = int(ran.group(3)) > 0
    return out, failed


def replay_file(path):
    """./check replay <path>: rebuild from /repo's current tree, re-run the recorded
    counterexample natively against the real code."""
    d = json.load(open(path))
    print("replay of %s (property %s)" % (d["obligation"], d["property"]))
    if not d.get("playback_test") or d.get("replay_outcome") == "no-failing-input-found" and not d.get("playback_test"):
        print("no concrete input recorded for this obligation; verifier output follows")
        print(json.dumps(d.get("failed_checks"), indent=1))
        print((d.get("verifier_output") or "")[:4000])
        return 0
    rec = {"playback_test": d["playback_test"], "harness": d["harness"], "config": d["config"], "name": d["obligation"]}
    with common.Scratch("replay") as sc:
        common.apply_overlay(sc)
        out, failed = _native_playback(sc, rec)
    print(out[-3000:])
    if failed:
        print("REPRODUCED: the recorded input violates %s on /repo's current tree" % d["obligation"])
        print("VIOLATION property=%s replay=%s" % (d["property"], path))
        return 1
    print("NOT REPRODUCED on /repo's current tree")
    return 0
