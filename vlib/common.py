"""Shared helpers: paths, feature rows, scratch copies, overlay (add-only)."""
import hashlib
import json
import os
import re
import shutil
import subprocess
import sys
import time

VERIF = os.path.dirname(os.path.dirname(os.path.abspath(__file__)))
REPO = os.environ.get("VERIF_REPO", "/repo")
OVERLAY = os.path.join(VERIF, "kani", "overlay")
CRATE = "fast-tlsh"

# Feature matrix (DESIGN.md section 2.7).  Every row is one `cargo kani` build
# of the real crate; contracts are identical in every row.
BASE = "std,easy-functions"
ROWS = {
    "plain": BASE,
    "tables": BASE + ",opt-default",
    "embedded": BASE + ",opt-embedded-default",
    "lowmem-a": BASE + ",opt-low-memory-buckets,opt-low-memory-hex-str-decode-half-table,"
                       "opt-low-memory-hex-str-encode-half-table",
    "lowmem-b": BASE + ",opt-low-memory-buckets,opt-low-memory-hex-str-decode-quarter-table,"
                       "opt-low-memory-hex-str-encode-min-table",
    "lowmem-c": BASE + ",opt-low-memory-buckets,opt-low-memory-hex-str-decode-min-table,"
                       "opt-low-memory-hex-str-encode-min-table",
    "simd": BASE + ",opt-default,simd,detect-features",
    "unsafe": BASE + ",unsafe",
    "simd-unsafe": BASE + ",opt-default,simd,detect-features,unsafe",
    "strict": BASE + ",opt-default,strict-parser",
    "serde": BASE + ",opt-default,serde",
    "serde-strict": BASE + ",opt-default,serde,strict-parser",
    "serde-buffered": BASE + ",opt-default,serde,serde-buffered",
    "serde-unsafe": BASE + ",opt-default,serde,unsafe",
}


def log(*a):
    print(*a, file=sys.stderr, flush=True)


def sh(cmd, cwd=None, env=None, timeout=None, check=False):
    e = dict(os.environ)
    e["CARGO_NET_OFFLINE"] = "true"
    if env:
        e.update(env)
    t0 = time.time()
    try:
        p = subprocess.run(cmd, cwd=cwd, env=e, stdout=subprocess.PIPE, stderr=subprocess.STDOUT,
                           timeout=timeout, text=True, errors="replace")
        out, rc = p.stdout, p.returncode
    except subprocess.TimeoutExpired as ex:
        out = (ex.stdout or "")
        if isinstance(out, bytes):
            out = out.decode(errors="replace")
        rc = -9
    if check and rc != 0:
        raise RuntimeError("command failed (%s): %s\n%s" % (rc, cmd, out[-4000:]))
    return rc, out, time.time() - t0


def scratch_root():
    base = os.environ.get("VERIF_SCRATCH") or "/var/tmp"
    d = os.path.join(base, "fast-tlsh-verif.%d" % os.getpid())
    return d


class Scratch:
    """Fresh copy of /repo's *current working tree* (never /repo itself)."""

    def __init__(self, tag="s"):
        self.root = scratch_root() + "." + tag
        self.tag = tag

    def __enter__(self):
        if os.path.exists(self.root):
            shutil.rmtree(self.root, ignore_errors=True)
        os.makedirs(self.root)
        self.repo = os.path.join(self.root, "repo")
        sh(["rsync", "-a", "--exclude", "/target", "--exclude", ".git", REPO + "/", self.repo + "/"], check=True)
        self.pristine_hash = tree_hash(self.repo)
        return self

    def __exit__(self, *a):
        if os.environ.get("VERIF_KEEP_SCRATCH"):
            log("keeping scratch", self.root)
            return False
        shutil.rmtree(self.root, ignore_errors=True)
        return False

    @property
    def crate(self):
        return os.path.join(self.repo, CRATE)


def tree_hash(root, sub="fast-tlsh/src"):
    h = hashlib.sha256()
    base = os.path.join(root, sub)
    for dp, dn, fn in sorted(os.walk(base)):
        dn.sort()
        for f in sorted(fn):
            p = os.path.join(dp, f)
            h.update(os.path.relpath(p, root).encode())
            with open(p, "rb") as fh:
                h.update(fh.read())
    for extra in ("fast-tlsh/Cargo.toml", "Cargo.lock", "Cargo.toml", "fast-tlsh/build.rs"):
        p = os.path.join(root, extra)
        if os.path.exists(p):
            with open(p, "rb") as fh:
                h.update(fh.read())
    return h.hexdigest()


def overlay_files():
    out = []
    for dp, dn, fn in os.walk(OVERLAY):
        for f in fn:
            p = os.path.join(dp, f)
            out.append(os.path.relpath(p, OVERLAY))
    return sorted(out)


MOD_LINE = "#[cfg(kani)] mod verif_kani;\n"
SPEC_LINE = "#[cfg(kani)] pub(crate) mod verif_spec;\n"
FEATURE_LINE = "#![cfg_attr(kani, feature(formatting_options))]\n"


class OverlayError(Exception):
    pass


def apply_overlay(scratch):
    """Add-only overlay: copies harness/spec files and appends one `mod` line per
    parent module.  Returns a summary dict; raises OverlayError (=> undecided)
    when an anchor is lost or the result is not add-only."""
    repo = scratch.repo
    added_files, appended = [], []
    for rel in overlay_files():
        src = os.path.join(OVERLAY, rel)
        dst = os.path.join(repo, rel)
        if os.path.exists(dst):
            raise OverlayError("overlay file already exists in repo: " + rel)
        os.makedirs(os.path.dirname(dst), exist_ok=True)
        shutil.copy(src, dst)
        added_files.append(rel)
        base = os.path.basename(rel)
        if base == "verif_kani.rs":
            pdir = os.path.dirname(rel)          # fast-tlsh/src/compare/dist_qratios
            if pdir.endswith("/src"):
                parent = os.path.join(pdir, "lib.rs")
            else:
                parent = pdir + ".rs"
            ppath = os.path.join(repo, parent)
            if not os.path.exists(ppath):
                raise OverlayError("lost-anchor: parent module file missing: " + parent)
            with open(ppath, "a") as fh:
                fh.write("\n" + MOD_LINE)
            appended.append((parent, MOD_LINE.strip()))
        elif base in ("verif_spec.rs", "verif_models.rs"):
            ppath = os.path.join(repo, os.path.dirname(rel), "lib.rs")
            line = "#[cfg(kani)] pub(crate) mod %s;\n" % base[:-3]
            with open(ppath, "a") as fh:
                fh.write("\n" + line)
            appended.append((os.path.relpath(ppath, repo), line.strip()))
    # path dependency on the support crate (holds the stubs' unsafe): appended table
    cargo = os.path.join(repo, CRATE, "Cargo.toml")
    sup = os.path.join(scratch.root, "verif-support")
    if os.path.exists(sup):
        shutil.rmtree(sup)
    shutil.copytree(os.path.join(VERIF, "kani", "support"), sup)
    with open(cargo, "a") as fh:
        fh.write("\n[dependencies.verif-support]\npath = \"%s\"\n" % sup)
    appended.append((CRATE + "/Cargo.toml", "[dependencies.verif-support] path = <scratch>/verif-support"))
    # The one *prepended* line: a nightly feature gate needed by the Display
    # harness (core::fmt::Formatter::new).  Inner attributes must come first.
    lib = os.path.join(repo, CRATE, "src", "lib.rs")
    with open(lib) as fh:
        txt = fh.read()
    with open(lib, "w") as fh:
        fh.write(FEATURE_LINE + txt)
    appended.append((CRATE + "/src/lib.rs", FEATURE_LINE.strip() + " (prepended)"))
    # add-only check: diff against /repo must not contain removed lines
    rc, out, _ = sh(["diff", "-r", "-u", "--exclude", "target", "--exclude", ".git", REPO, repo])
    removed = [l for l in out.splitlines() if l.startswith("-") and not l.startswith("---")]
    if removed:
        raise OverlayError("overlay is not add-only: %r" % removed[:3])
    return {"added_files": added_files, "appended": appended,
            "overlay_diff_sha": hashlib.sha256(out.encode()).hexdigest()}


def write_json(path, obj):
    os.makedirs(os.path.dirname(path), exist_ok=True)
    tmp = path + ".tmp"
    with open(tmp, "w") as fh:
        json.dump(obj, fh, indent=1, sort_keys=False)
        fh.write("\n")
    os.replace(tmp, path)
