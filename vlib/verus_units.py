"""Definitions of the Verus units (what is extracted, which annotations are spliced)."""
import os
import re

from . import extract
from .common import OVERLAY, CRATE
from .verusrun import unit, read, VDIR

SRC = CRATE + "/src/"


def src(sc, rel):
    with open(os.path.join(sc.repo, SRC + rel)) as fh:
        return fh.read()


# ------------------------------------------------------------------ sum_trees
@unit("sum_trees", ["C02", "C07", "C08"])
def build_sum_trees(sc):
    """Re-association lemmas SAT cannot do: the tree-shaped expected values used by
    the Kani obligations of the SSE2/SSE4.1 callers equal the flat sum of all lanes;
    chunked byte sums equal the flat byte sum (spec-level induction)."""
    parts = [read("sum_trees_prelude.rs")]
    expect = ["lemma_sum_concat", "lemma_chunked_sum"]
    for mod, nl, bound, ncalls in (("x86_sse2", 8, 48, (2, 4)), ("x86_sse4_1", 4, 96, (2, 4)), ("x86_avx2", 8, 96, (1, 2))):
        with open(os.path.join(OVERLAY, SRC + "compare/dist_body/%s/verif_kani.rs" % mod)) as fh:
            t = fh.read()
        m = re.search(r"// @verus-begin %s\n(.*?)// @verus-end" % mod, t, re.S)
        if not m:
            raise extract.ExtractError("lost-anchor: @verus-begin %s" % mod)
        body = m.group(1)
        for n, calls in (("tree_32", ncalls[0]), ("tree_64", ncalls[1])):
            sig, b = extract.fn_text(body, n)
            flat = " + ".join("l[%d][%d]" % (i, j) for i in range(calls) for j in range(nl))
            parts.append("pub fn %s_%s(l: &[[u32; %d]; %d]) -> (r: u32)\n"
                         "    requires forall|i: int, j: int| 0 <= i < %d && 0 <= j < %d ==> l[i][j] <= %d,\n"
                         "    ensures r == %s,\n{%s}\n" % (mod, n, nl, calls, calls, nl, bound, flat, b))
            expect.append("%s_%s" % (mod, n))
    text = "use vstd::prelude::*;\nverus! {\n" + "\n".join(parts) + "\n} // verus!\nfn main() {}\n"
    return {"text": text, "expect": expect, "function": "spec lemmas for compare::dist_body::{x86_sse2,x86_sse4_1}::distance_{32,64}",
            "domain": "all lane values within the kernel's proved bound; all sequences",
            "assumptions": []}


# ------------------------------------------------------------------ update
GEN_IMPL_ANCHOR = r"crate::GeneratorType\s+for Generator<SIZE_CKSUM, SIZE_BODY, SIZE_BUCKETS, SIZE_IN_BYTES, SIZE_IN_STR_BYTES>"


def extract_const(text, name):
    m = re.search(r"^\s*(?:pub(?:\([a-z]+\))?\s+)?const %s: (\w+) = ([^;]+);" % name, text, re.M)
    if not m:
        raise extract.ExtractError("lost-anchor: const %s" % name)
    return m.group(1), m.group(2).strip()


def build_update_for(nb, ckn):
    def build(sc):
        g = src(sc, "generate.rs")
        sig, body = extract.fn_text(g, "update", after=GEN_IMPL_ANCHOR)
        lines = extract.dedent(body)
        report = []
        items = extract.apply_rules(lines, report)
        annots = extract.parse_annot(os.path.join(VDIR, "update.annot"))
        header = [b for k, a, b in annots if k == "header"]
        annots = [(k, a, b) for k, a, b in annots if k != "header"]
        out = extract.splice(items, annots, report)
        ws_t, ws_v = extract_const(g, "WINDOW_SIZE")
        ts_t, ts_v = extract_const(g, "TAIL_SIZE")
        ml_t, ml_v = extract_const(g, "MAX_LEN")
        text = "use vstd::prelude::*;\nverus! {\n"
        text += "pub const WINDOW_SIZE: %s = %s;   // extracted\n" % (ws_t, ws_v)
        text += read("update_prelude.rs")
        text += read("update_struct.rs")
        text += "    const TAIL_SIZE: %s = %s;   // extracted\n    const MAX_LEN: %s = %s;   // extracted\n" % (ts_t, ts_v, ml_t, ml_v)
        text += "    " + sig + "\n" + "\n".join(header[0] if header else []) + "\n    {\n"
        text += "\n".join("        " + l for l in out)
        text += "\n    }\n}\n"
        text += read("update_lemmas.rs")
        text += "\n} // verus!\nfn main() {}\n"
        fidelity = {"unit": "update", "source": "fast-tlsh/src/generate.rs inner::Generator::update",
                    "rewrites": report,
                    "dropped": ["attributes and doc comments on the item", "generic header and where-clauses (the bucket count and checksum width are left *arbitrary*: one proof for all five variants and both bucket layouts)",
                                "bodies of callees (b_mapping, InnerChecksum::update, increment, likely/unlikely): replaced by contracts"],
                    "kept": "every statement and expression of the body, token for token apart from the listed rewrites"}
        return {"text": text, "expect": ["Generator::update", "Generator::canary_update_pre", "lemma_chunking_independent", "lemma_fed_length", "lemma_checksum_invariant"], "function": "generate::inner::Generator::update",
                "functions": {"Generator::update": "generate::inner::Generator::update"},
                "domain": "all data slices (any length) x all well-formed generator states; no bound",
                "fidelity": fidelity,
                "assumptions": ["Verus unit update: callees b_mapping / InnerChecksum::update / FuzzyHashBucketsData::increment are external_body with the contract the Kani obligations buckets.b_mapping.*, checksum.update*, buckets.increment.* prove on the real code (bmap, ck_upd uninterpreted)",
                                "likely()/unlikely() are the identity (intrinsics.rs; under feature `unstable` they are core::intrinsics hints)",
                                "usize is 64 bit"]}
    return build


unit("update", ["C01", "C03", "C07", "C11", "C15", "C17", "C18"], rlimit=600)(build_update_for(0, 0))


# ------------------------------------------------------------------ stream (C12)
@unit("stream", ["C12", "C17"], rlimit=120)
def build_stream(sc):
    g = src(sc, "generate_easy_std.rs")
    sig, body = extract.fn_text(g, "hash_stream_common")
    lines = extract.dedent(body)
    report = []
    items = extract.apply_rules(lines, report)
    annots = extract.parse_annot(os.path.join(VDIR, "stream.annot"))
    header = [b for k, a, b in annots if k == "header"]
    annots = [(k, a, b) for k, a, b in annots if k != "header"]
    out = extract.splice(items, annots, report)
    bs_t, bs_v = extract_const(g, "BUFFER_SIZE")
    # signature: name the result so that the postcondition can talk about it
    m = re.match(r"(.*)\)\s*->\s*(Result<G::Output, GeneratorOrIOError>)\s*$", " ".join(sig.split()), re.S)
    if not m:
        raise extract.ExtractError("lost-anchor: hash_stream_common signature shape")
    sig2 = "%s) -> (res: %s)" % (m.group(1), m.group(2))
    text = "use vstd::prelude::*;\nuse std::io::Read;\nverus! {\n"
    text += read("stream_prelude.rs")
    text += "const BUFFER_SIZE: %s = %s;   // extracted\n\n" % (bs_t, bs_v)
    text += "#[verifier::exec_allows_no_decreases_clause]\n" + sig2 + "\n" + "\n".join(header[0]) + "\n{\n"
    text += "\n".join("    " + l for l in out)
    text += "\n}\n\n} // verus!\nfn main() {}\n"
    fidelity = {"unit": "stream", "source": "fast-tlsh/src/generate_easy_std.rs hash_stream_common", "rewrites": report,
                "dropped": ["#[inline] attribute", "doc comments"],
                "kept": "every statement of the body, token for token apart from the listed rewrites"}
    return {"text": text, "expect": ["hash_stream_common"], "function": "generate_easy_std::hash_stream_common",
            "functions": {"hash_stream_common": "generate_easy_std::hash_stream_common"},
            "domain": "all readers honouring n <= buf.len(), all reader histories (any number of partial reads, interruptions, errors; no bound), all generators",
            "fidelity": fidelity,
            "assumptions": ["Verus unit stream: std::io::Read implementors return n <= buf.len() (documented contract); a reader that violates it is covered by the Kani obligations stream.lying_reader.*",
                            "vec![0u8; N] yields N bytes (vstd)", "termination is not claimed (an endless reader never returns)",
                            "GeneratorType::{update,finalize} by the abstract contract fed' = fed ++ data / result_of(fed); instantiated for Generator<T> by the C01 contracts"]}


# ------------------------------------------------------------------ static spec-lemma units
def static_unit(name, props, fname, expect, function, quick=True):
    def build(sc):
        text = "use vstd::prelude::*;\nuse vstd::multiset::*;\nverus! {\n" + read(fname) + "\n} // verus!\nfn main() {}\n"
        return {"text": text, "expect": expect, "function": function, "domain": "all sequences / all values (spec-level lemma, unbounded)",
                "assumptions": []}
    unit(name, props, quick=quick, rlimit=120)(build)


static_unit("quartiles", ["C01", "C10"], "quartiles.rs", ["lemma_quartiles", "lemma_pivot"],
            "<[u32]>::select_nth_unstable (documented contract) as used by generate::Generator::finalize_with_options")
static_unit("gate", ["C10"], "gate.rs", ["lemma_widening", "lemma_quarter_implies_half"],
            "generate::Generator::finalize_with_options (acceptance gate; lattice laws)")


# ------------------------------------------------------------------ Q-ratio statement slice (R7)
def qratio_statement(sc):
    """R7: the single statement `let (q1ratio, q2ratio) = if <flag> { INT } else { F32 };` of
    finalize_with_options, sliced into its two arms (token-identical)."""
    g = src(sc, "generate.rs")
    sig, body = extract.fn_text(g, "finalize_with_options", after=GEN_IMPL_ANCHOR)
    m = re.search(r"let \(q1ratio, q2ratio\) = if ", body)
    if not m:
        raise extract.ExtractError("lost-anchor: Q-ratio statement")
    i = body.index("{", m.end())
    cond = body[m.end():i].strip()
    c1 = extract.match_brace(body, i)
    arm_int = body[i + 1:c1]
    m2 = re.match(r"\s*else\s*\{", body[c1 + 1:])
    if not m2:
        raise extract.ExtractError("lost-anchor: Q-ratio statement else arm")
    j = c1 + 1 + m2.end() - 1
    c2 = extract.match_brace(body, j)
    arm_f32 = body[j + 1:c2]
    if not body[c2 + 1:].lstrip().startswith(";"):
        raise extract.ExtractError("lost-anchor: Q-ratio statement end")
    # data-flow side conditions (syntactic): q1,q2,q3 are not assigned after the dummy
    # block; q1ratio/q2ratio are used exactly once, in FuzzyHashQRatios::new(q1ratio, q2ratio)
    after = body[c2 + 1:]
    uses = len(re.findall(r"\bq1ratio\b", after)), len(re.findall(r"\bq2ratio\b", after))
    flow_ok = uses == (1, 1) and re.search(r"FuzzyHashQRatios::new\(\s*q1ratio\s*,\s*q2ratio\s*\)", after) is not None
    between = body[body.index("(q1, q2, q3) = (1, 1, 1);") + 10:m.start()] if "(q1, q2, q3) = (1, 1, 1);" in body else None
    no_reassign = between is not None and not re.search(r"\bq[123]\s*=[^=]", between)
    return {"cond": " ".join(cond.split()), "int": arm_int, "f32": arm_f32, "flow_ok": flow_ok and no_reassign}


@unit("qratio", ["C01"], rlimit=60)
def build_qratio(sc):
    st = qratio_statement(sc)
    if "PURE_INTEGER_QRATIO_COMPUTATION" not in st["cond"] or st["cond"].startswith("!"):
        raise extract.ExtractError("lost-anchor: Q-ratio statement condition is not the PURE_INTEGER flag test: " + st["cond"])
    if not st["flow_ok"]:
        raise extract.ExtractError("lost-anchor: Q-ratio data flow side conditions (q1..q3 reassigned or q*ratio used elsewhere)")
    text = "use vstd::prelude::*;\nverus! {\n" + read("qratio_prelude.rs")
    text += "fn qratio_int_arm(q1: u32, q2: u32, q3: u32) -> (r: (u8, u8))\n    requires q3 != 0\n" \
            "    ensures r.0 == ref_qratio_int(q1, q3), r.1 == ref_qratio_int(q2, q3)\n{\n" \
            "    let (q1ratio, q2ratio) = {" + st["int"] + "};\n    (q1ratio, q2ratio)\n}\n"
    text += "proof fn canary_qratio_pre(q3: u32) requires q3 != 0 ensures false {}\n"
    text += "\n} // verus!\nfn main() {}\n"
    return {"text": text, "expect": ["qratio_int_arm", "canary_qratio_pre"],
            "function": "generate::Generator::finalize_with_options (integer Q-ratio arm, statement slice R7)",
            "domain": "all q1, q2, q3 with q3 != 0",
            "fidelity": {"unit": "qratio", "rule": "R7: let-statement sliced into a function of its free locals; arm tokens identical",
                         "condition": st["cond"]},
            "assumptions": []}
static_unit("distance_laws", ["C08"], "distance_laws.rs", ["lemma_total_laws", "lemma_clear_checksum", "lemma_body_sum", "lemma_max_attained"],
            "hash::FuzzyHash::{compare_with_config, max_distance, clear_checksum} (laws over the part contracts)")


# ------------------------------------------------------------------ hash_buf_for (C01 composition)
@unit("hash_buf", ["C01"], rlimit=60)
def build_hash_buf(sc):
    g = src(sc, "generate_easy.rs")
    sig, body = extract.fn_text(g, "hash_buf_for")
    lines = extract.dedent(body)
    report = []
    out = []
    for l in lines:
        if "Generator::<T>::new()" in l:
            nl = l.replace("Generator::<T>::new()", "G::new()")
            report.append({"rule": "R4 (monomorphic generator type replaced by the abstract GeneratorType it implements)", "original": l.strip(), "rewritten": nl.strip()})
            out.append(nl)
        else:
            out.append(l)
    if len(report) != 1:
        raise extract.ExtractError("lost-anchor: Generator::<T>::new() in hash_buf_for")
    text = "use vstd::prelude::*;\nverus! {\n" + read("hash_buf_prelude.rs")
    text += "pub fn hash_buf_for<G: GeneratorType>(buffer: &[u8]) -> (r: Result<G::Output, GeneratorError>)\n" \
            "    ensures r == G::result_of(buffer@)\n{\n" + "\n".join("    " + l for l in out) + "\n}\n"
    text += "\n} // verus!\nfn main() {}\n"
    return {"text": text, "expect": ["hash_buf_for"], "function": "generate_easy::hash_buf_for",
            "functions": {"hash_buf_for": "generate_easy::hash_buf_for"},
            "domain": "all buffers, all hash variants (composition of the new/update/finalize contracts)",
            "fidelity": {"unit": "hash_buf", "rewrites": report, "dropped": ["generic parameter T: ConstrainedFuzzyHashType (replaced by the abstract generator G = Generator<T>)"]},
            "assumptions": ["Verus unit hash_buf: Generator<T>::{new,update,finalize} by their abstract contracts (fed = [] / fed ++ data / result_of(fed)); the concrete meaning of result_of is fixed by the update unit and the finalize.* Kani obligations"]}
