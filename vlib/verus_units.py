"""Definitions of the Verus units (what is extracted, which annotations are spliced)."""
import os
import re

from . import extract
from .common import OVERLAY, CRATE
from .verusrun import unit, read, VDIR

SRC = CRATE + "/src/"


def src(sc, rel):
    with open(os.path.join(sc.repo, SRC + rel)) as fh:
        return fh.read()


# ------------------------------------------------------------------ sum_trees
@unit("sum_trees", ["C02", "C07", "C08"])
def build_sum_trees(sc):
    """Re-association lemmas SAT cannot do: the tree-shaped expected values used by
    the Kani obligations of the SSE2/SSE4.1 callers equal the flat sum of all lanes;
    chunked byte sums equal the flat byte sum (spec-level induction)."""
    parts = [read("sum_trees_prelude.rs")]
    expect = ["lemma_sum_concat", "lemma_chunked_sum"]
    for mod, nl, bound in (("x86_sse2", 8, 48), ("x86_sse4_1", 4, 96)):
        with open(os.path.join(OVERLAY, SRC + "compare/dist_body/%s/verif_kani.rs" % mod)) as fh:
            t = fh.read()
        m = re.search(r"// @verus-begin %s\n(.*?)// @verus-end" % mod, t, re.S)
        if not m:
            raise extract.ExtractError("lost-anchor: @verus-begin %s" % mod)
        body = m.group(1)
        for n, calls in (("tree_32", 2), ("tree_64", 4)):
            sig, b = extract.fn_text(body, n)
            flat = " + ".join("l[%d][%d]" % (i, j) for i in range(calls) for j in range(nl))
            parts.append("pub fn %s_%s(l: &[[u32; %d]; %d]) -> (r: u32)\n"
                         "    requires forall|i: int, j: int| 0 <= i < %d && 0 <= j < %d ==> l[i][j] <= %d,\n"
                         "    ensures r == %s,\n{%s}\n" % (mod, n, nl, calls, calls, nl, bound, flat, b))
            expect.append("%s_%s" % (mod, n))
    text = "use vstd::prelude::*;\nverus! {\n" + "\n".join(parts) + "\n} // verus!\nfn main() {}\n"
    return {"text": text, "expect": expect, "function": "spec lemmas for compare::dist_body::{x86_sse2,x86_sse4_1}::distance_{32,64}",
            "domain": "all lane values within the kernel's proved bound; all sequences",
            "assumptions": []}
