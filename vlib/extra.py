"""Non-solver obligations (build clause, syntactic identity)."""
EXTRAS = []
def select(prop, tier):
    return [e for e in EXTRAS if prop in e["props"]]
def run(sc, e, tier):
    return []
