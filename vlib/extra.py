"""Non-solver obligations: build clause (rustc is the checker), syntactic identity of
the legacy f32 Q-ratio expression (with a native search when it differs), syntactic
scan for interior mutability.  Never counted as discharged solver obligations."""
import os
import re
import shutil

from . import extract
from .common import CRATE, sh, log

EXTRAS = [
    {"name": "syntactic:qratio_f32", "props": ["C01"], "quick": True},
    {"name": "build:nostd", "props": ["C18"], "quick": True},
    {"name": "syntactic:generator_no_interior_mutability", "props": ["C03"], "quick": True},
]


def select(prop, tier):
    return [e for e in EXTRAS if prop in e["props"] and (tier == "thorough" or e["quick"])]


def base(name, kind, function, domain):
    return {"name": name, "id": name, "backend": kind, "kind": kind, "config": "source", "harness": "", "replay_mode": "none",
            "solver": "-", "bounded": None, "covers": None, "function": function, "domain": domain, "seconds": None,
            "checks": 1, "cmd": "", "reason": ""}


REF_F32 = "(((q.wrapping_mul(100) as f32) / q3 as f32) as u32 % 16) as u8"


def norm(s):
    return re.sub(r"\s+", "", s)


def run(sc, e, tier):
    try:
        if e["name"] == "syntactic:qratio_f32":
            return [qratio_f32(sc, tier)]
        if e["name"] == "build:nostd":
            return build_nostd(sc)
        if e["name"] == "syntactic:generator_no_interior_mutability":
            return [no_interior_mut(sc)]
    except extract.ExtractError as ex:
        r = base(e["name"], "syntactic", "", "")
        r["verdict"] = "undecided"
        r["reason"] = "extraction: %s" % ex
        return [r]
    return []


def qratio_f32(sc, tier):
    from .verus_units import qratio_statement
    r = base("syntactic:qratio_f32", "syntactic", "generate::Generator::finalize_with_options (legacy f32 Q-ratio arm)",
             "NOT PROVED: binary32 divider equivalence is out of reach of the installed verifiers; decided by token identity with the frozen reference expression, else by a native search")
    st = qratio_statement(sc)
    want = "(" + REF_F32.replace("q.", "q1.").replace(" q3", " q3") + "," + REF_F32.replace("q.", "q2.") + ",)"
    got = norm(st["f32"])
    if got in (norm(want), norm(want).replace(",)", ")")):
        r["verdict"] = "discharged"
        r["reason"] = "f32 arm is token-identical to the reference expression for q in {q1,q2}"
        return r
    # tokens differ: search for a differing input natively (real expression vs reference)
    hit, out = native_search(sc, st["f32"])
    r["search"] = out[-2000:]
    if hit:
        r["verdict"] = "failed"
        r["reason"] = "f32 Q-ratio arm differs from the reference formula on " + hit
        r["failed_checks"] = [{"description": "qratio_f32 differs from reference: " + hit, "location": "fast-tlsh/src/generate.rs finalize_with_options"}]
        r["counterexample"] = hit
        r["replay_outcome"] = "reproduced"
        r["verifier_output"] = out[-3000:]
    else:
        r["verdict"] = "undecided"
        r["reason"] = "f32 arm tokens differ from the reference expression and the native search found no differing input: " + st["f32"].strip()[:300]
    return r


SEARCH_RS = r'''
fn arm(q1: u32, q2: u32, q3: u32) -> (u8, u8) { let (q1ratio, q2ratio) = { __ARM__ }; (q1ratio, q2ratio) }
fn reference(q: u32, q3: u32) -> u8 { (((q.wrapping_mul(100) as f32) / q3 as f32) as u32 % 16) as u8 }
fn check(q1: u32, q2: u32, q3: u32) -> bool {
    if q3 == 0 || q1 > q2 || q2 > q3 { return true; }
    let r = std::panic::catch_unwind(|| arm(q1, q2, q3));
    match r {
        Ok((a, b)) => if a != reference(q1, q3) || b != reference(q2, q3) {
            println!("MISMATCH q1={} q2={} q3={} got=({},{}) want=({},{})", q1, q2, q3, a, b, reference(q1, q3), reference(q2, q3)); false } else { true },
        Err(_) => { println!("MISMATCH q1={} q2={} q3={} got=panic", q1, q2, q3); false }
    }
}
fn main() {
    std::panic::set_hook(Box::new(|_| {}));
    let edges: [u32; 24] = [0, 1, 2, 3, 15, 16, 17, 99, 100, 101, (1 << 24) - 1, 1 << 24, (1 << 24) + 1, 42_949_672, 42_949_673, 42_949_674,
        (1u32 << 31) - 1, 1 << 31, (1u32 << 31) + 1, u32::MAX - 1, u32::MAX, 167_772_16, 1_000_000_007, 3_000_000_000];
    for &a in &edges { for &b in &edges { for &c in &edges { if !check(a, b, c) { return; } } } }
    let mut s: u64 = 0x9E37_79B9_7F4A_7C15 ^ __SEED__;
    let mut next = || { s ^= s << 13; s ^= s >> 7; s ^= s << 17; s };
    for _ in 0..10_000_000u32 {
        let mut v = [next() as u32 >> (next() % 32) as u32, next() as u32 >> (next() % 32) as u32, next() as u32 >> (next() % 32) as u32];
        v.sort();
        if !check(v[0], v[1], v[2]) { return; }
    }
    println!("NO-MISMATCH");
}
'''


def native_search(sc, arm):
    wd = os.path.join(sc.root, "qsearch")
    os.makedirs(wd, exist_ok=True)
    seed = int(os.environ.get("VERIF_SEED", "0") or 0)
    with open(os.path.join(wd, "s.rs"), "w") as fh:
        fh.write(SEARCH_RS.replace("__ARM__", arm).replace("__SEED__", str(seed)))
    rc, out, _ = sh(["rustc", "-O", "-C", "overflow-checks=on", "-o", "s", "s.rs"], cwd=wd, timeout=300)
    if rc != 0:
        return None, "search program did not compile: " + out[-1500:]
    rc, out, _ = sh(["./s"], cwd=wd, timeout=600)
    m = re.search(r"MISMATCH (.*)", out)
    return (m.group(1) if m else None), out


NOSTD_MATRIX = [
    ("", "no std, no alloc"),
    ("alloc", "alloc only"),
    ("simd", "no std + per-arch SIMD back ends"),
    ("opt-default", "no std + default tables"),
    ("opt-embedded-default,easy-functions", "no std + embedded tables + easy functions"),
    ("alloc,easy-functions,opt-low-memory-buckets,opt-low-memory-hex-str-decode-min-table,opt-low-memory-hex-str-encode-min-table", "alloc + low-memory configuration"),
    ("serde", "no std + serde"),
    ("simd,unsafe", "no std + SIMD + unsafe"),
]


def build_nostd(sc):
    """The property's build clause: the library compiles with std (and alloc) disabled - in every
    feature combination of the matrix (rustc is the checker; not a solver obligation)."""
    recs = []
    tdir = os.path.join(sc.root, "target-nostd")
    for feats, label in NOSTD_MATRIX:
        suffix = "" if not feats else "." + re.sub(r"[^a-z0-9]+", "_", feats)[:40]
        r = base("build:nostd" + suffix, "build", "crate fast-tlsh", "cargo build --lib --no-default-features " + ("--features " + feats if feats else "") + " (" + label + ")")
        # extras run before the Kani overlay is applied: sc.repo is the pristine copy of /repo
        cmd = ["cargo", "build", "--manifest-path", os.path.join(sc.repo, CRATE, "Cargo.toml"), "--offline",
               "--no-default-features", "--target-dir", tdir, "--lib"]
        if feats:
            cmd += ["--features", feats]
        rc, out, secs = sh(cmd, cwd=sc.root, timeout=900)
        r["seconds"] = round(secs, 1)
        r["cmd"] = " ".join(cmd)
        if rc == 0:
            r["verdict"] = "discharged"
        else:
            r["verdict"] = "failed"
            r["reason"] = "library does not build without std (features: %s): %s" % (feats or "none", first_error(out))
            r["failed_checks"] = [{"description": r["reason"][:300], "location": "cargo build"}]
            r["verifier_output"] = out[-4000:]
            r["replay_outcome"] = "reproduced"
            r["counterexample"] = "cargo build -p fast-tlsh --lib --no-default-features" + (" --features " + feats if feats else "")
        recs.append(r)
    return recs


def first_error(out):
    m = re.search(r"^(error(\[E\d+\])?: .*(?:\n.*){0,6})", out, re.M)
    return (m.group(1) if m else out[-600:]).replace("\n", " | ")[:900]


def no_interior_mut(sc):
    r = base("syntactic:generator_no_interior_mutability", "syntactic", "generate.rs / buckets.rs / hash/checksum.rs (generator state types)",
             "source scan: finalize takes &self, so it can only disturb the generator through interior mutability")
    bad = []
    for f in ("generate.rs", "buckets.rs", "hash/checksum.rs"):
        p = os.path.join(sc.repo, CRATE, "src", f)
        txt = open(p).read()
        code = "\n".join(l for l in txt.split("\n") if not l.strip().startswith("//"))
        for pat in (r"\bCell<", r"\bRefCell<", r"\bUnsafeCell<", r"\bstatic\s+mut\b", r"\bAtomic[A-Z]\w*", r"\bMutex<", r"\bRwLock<", r"\bOnceCell<"):
            if re.search(pat, code):
                bad.append("%s: %s" % (f, pat))
    if bad:
        r["verdict"] = "undecided"
        r["reason"] = "interior mutability constructs present; the '&self cannot disturb' argument needs review: " + ", ".join(bad)
    else:
        r["verdict"] = "discharged"
    return r
