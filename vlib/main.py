"""./check <ID> --tier quick|thorough   |   ./check replay <path>   |   ./check list"""
import argparse
import json
import os
import re
import sys
import time
import traceback

from . import common, kanirun, replay as replaymod, verusrun, extra
from .common import VERIF, REPO, log, write_json

PROPS = ["C%02d" % i for i in range(1, 19)]

TRUSTED_BASE = [
    "rustc (Kani's pinned nightly; Verus's pinned 1.98.1)",
    "Kani 0.68.0 / CBMC 6.11.0 / CaDiCaL (Kani's models of memcpy, simd_* and IEEE-754 binary32)",
    "Verus 0.2026.09.13 / Z3",
    "/verif spec library (frozen reference constants and definitions, kani/overlay/fast-tlsh/src/verif_spec.rs and verus/*.rs spec fns)",
]


def load_known():
    path = os.path.join(VERIF, "known-findings.txt")
    known = []
    if os.path.exists(path):
        for line in open(path):
            line = line.strip()
            if line.startswith("known:"):
                kv = dict(re.findall(r'(\w+)=("[^"]*"|\S+)', line[6:]))
                kv = {k: v.strip('"') for k, v in kv.items()}
                kv["_line"] = line
                known.append(kv)
    return known


def check_property(prop, tier, seed):
    t0 = time.time()
    obs = kanirun.scan_catalogue()
    sel = kanirun.select(obs, prop, tier)
    vunits = verusrun.select(prop, tier)
    extras = extra.select(prop, tier)
    if not sel and not vunits and not extras:
        print("UNDECIDED property=%s reason=no-obligations-registered" % prop)
        return 2
    records = []   # one per obligation
    overlay_info = {}
    with common.Scratch("%s.%s" % (prop, tier)) as sc:
        src_hash = sc.pristine_hash
        # ---- Verus leg + syntactic/build obligations: from the pristine copy
        for u in vunits:
            records.extend(verusrun.run_unit(sc, u, tier))
        for e in extras:
            records.extend(extra.run(sc, e, tier))
        # ---- Kani leg
        if sel:
            try:
                overlay_info = common.apply_overlay(sc)
                log("  overlay applied at %.0fs" % (time.time() - t0))
                results = kanirun.run_selection(sc, sel, tier)
            except common.OverlayError as ex:
                results = {}
                for o, r in sel:
                    results[(o["id"], r)] = {"verdict": "undecided", "reason": str(ex), "checks": 0,
                                             "failed": [], "ignored": [], "seconds": None, "row": r, "cmd": ""}
            for o, r in sel:
                res = results.get((o["id"], r)) or {"verdict": "undecided", "reason": "no result", "checks": 0,
                                                    "failed": [], "ignored": [], "seconds": None, "cmd": ""}
                rec = {
                    "name": "%s@%s" % (o["id"], r), "id": o["id"], "config": r, "backend": "kani/cbmc",
                    "kind": o["kind"], "function": o.get("fn", ""), "domain": o.get("domain", ""),
                    "harness": o["harness"], "verdict": res["verdict"], "reason": res.get("reason", ""),
                    "seconds": res.get("seconds"), "checks": res.get("checks", 0),
                    "covers": res.get("covers"), "ignored_checks": res.get("ignored", []),
                    "failed_checks": res.get("failed", []), "bounded": o.get("bounded"),
                    "cmd": res.get("cmd", ""), "replay_mode": o["replay"], "solver": "cadical", "cached": bool(res.get("cached")),
                }
                records.append(rec)
        # ---- replay failed obligations while the scratch copy still exists
        failed = [r for r in records if r["verdict"] == "failed"]
        for rec in failed:
            try:
                replaymod.produce(sc, rec, prop, overlay_applied=bool(overlay_info))
            except Exception as ex:   # never let replay machinery turn into an alarm of its own
                rec["replay_error"] = "%s" % ex
                log(traceback.format_exc())
    return report(prop, tier, seed, records, overlay_info, src_hash, time.time() - t0)


def report(prop, tier, seed, records, overlay_info, src_hash, wall):
    known = load_known()
    violations, knowns, undecided = [], [], []
    for rec in records:
        if rec["verdict"] == "failed":
            if rec.get("replay_outcome") == "not-reproduced":
                rec["verdict"] = "undecided"
                rec["reason"] = "verifier counterexample did not reproduce natively on the real code " \
                                "(assumed contract or verifier artefact): " + rec.get("reason", "")
                undecided.append(rec)
                continue
            k = match_known(known, prop, rec)
            if k:
                knowns.append((rec, k))
            else:
                violations.append(rec)
        elif rec["verdict"] == "undecided":
            undecided.append(rec)
    proved = [r for r in records if r["verdict"] == "discharged" and not r.get("bounded") and r["kind"] not in ("syntactic", "build", "search")]
    bounded = [r for r in records if r.get("bounded")]
    nonsolver = [r for r in records if r["kind"] in ("syntactic", "build", "search") and not r.get("bounded")]
    counted = [r for r in records if not r.get("bounded") and r["kind"] not in ("syntactic", "build", "search")]
    assumptions = collect_assumptions(prop, records)
    ev = {
        "property_id": prop, "tier": tier, "seed": seed, "level": "proof",
        "coverage": {
            "obligations": len(counted),
            "discharged": len(proved),
            "checker_cmd": "cd /verif && ./check %s --tier %s   (per obligation: see obligations[].cmd)" % (prop, tier),
            "trusted_base": TRUSTED_BASE,
            "functions_under_contract": sorted(set(r["function"] for r in records if r.get("function"))),
            "obligation_records": [slim(r) for r in records],
            "bounded_obligations": [slim(r) for r in bounded],
            "non_solver_obligations": [slim(r) for r in nonsolver],
            "samples": [slim(r) for r in records[:3]] + [slim(r) for r in violations[:3]],
            "solver_seconds_total": round(sum((r.get("seconds") or 0) for r in records), 2),
            "by_backend": count_by(records, "backend"),
            "by_kind": count_by(records, "kind"),
            "overlay": overlay_info,
            "repo_tree_sha256": src_hash,
            "undecided": [slim(r) for r in undecided],
            "known_findings": [k["_line"] for _, k in knowns],
        },
        "assumptions": assumptions,
        "wall_s": round(wall, 2),
        "violations": len(violations),
    }
    # evidence/ only ever holds runs against /repo itself; runs against another tree
    # (VERIF_REPO=<scratch worktree>, used when trying seeded changes) go elsewhere
    evdir = "evidence" if os.path.realpath(REPO) == "/repo" else os.path.join(".cache", "evidence-other-tree")
    write_json(os.path.join(VERIF, evdir, prop + ".json"), ev)
    for rec, k in knowns:
        print("KNOWN-FINDING: property=%s %s" % (prop, k.get("what", rec["name"])))
    for rec in violations:
        path = rec.get("replay_path") or replaymod.write_minimal(rec, prop)
        suffix = "" if rec.get("replay_outcome") == "reproduced" else " no-failing-input-found"
        print("VIOLATION property=%s replay=%s obligation=%s%s" % (prop, path, rec["name"], suffix))
        log("  failed: %s -- %s" % (rec["name"], rec.get("reason", "")))
    if violations:
        return 1
    if undecided:
        for rec in undecided:
            print("UNDECIDED property=%s obligation=%s reason=%s" % (prop, rec["name"], (rec.get("reason") or "")[:400]))
        return 2
    print("OK property=%s tier=%s obligations=%d discharged=%d bounded=%d non_solver=%d wall=%.0fs" % (
        prop, tier, len(counted), len(proved), len(bounded), len(nonsolver), wall))
    return 0


def slim(r):
    keys = ["name", "backend", "kind", "function", "domain", "config", "verdict", "seconds", "checks",
            "covers", "bounded", "reason", "cmd", "replay_path", "replay_outcome", "ignored_checks", "cached"]
    d = {k: r[k] for k in keys if k in r and r[k] not in (None, "", [])}
    if "ignored_checks" in d:
        d["ignored_checks"] = ["%s @ %s" % (x["description"], x["location"]) for x in d["ignored_checks"]][:8]
    return d


def count_by(records, key):
    d = {}
    for r in records:
        d[r.get(key, "?")] = d.get(r.get(key, "?"), 0) + 1
    return d


def match_known(known, prop, rec):
    for k in known:
        if k.get("property") != prop:
            continue
        if k.get("obligation") and not rec["name"].startswith(k["obligation"]):
            continue
        # the failing site/input must match: a different violation is still reported
        site = k.get("site")
        if site:
            blob = json.dumps(rec.get("failed_checks", [])) + rec.get("reason", "") + json.dumps(rec.get("counterexample", ""))
            if site not in blob:
                continue
        return k
    return None


def collect_assumptions(prop, records):
    a = []
    p = os.path.join(VERIF, "contracts", "assumptions.json")
    if os.path.exists(p):
        reg = json.load(open(p))
        for item in reg:
            if prop in item.get("props", []) or "*" in item.get("props", []):
                a.append(item["text"])
    for r in records:
        for x in r.get("assumptions", []) or []:
            if x not in a:
                a.append(x)
    return a


def main(argv=None):
    ap = argparse.ArgumentParser()
    ap.add_argument("what")
    ap.add_argument("path", nargs="?")
    ap.add_argument("--tier", default=os.environ.get("VERIF_TIER", "quick"))
    a = ap.parse_args(argv)
    seed = int(os.environ.get("VERIF_SEED", "0") or 0)
    try:
        if a.what == "replay":
            return replaymod.replay_file(a.path)
        if a.what == "list":
            for o in kanirun.scan_catalogue():
                print(o["id"], ",".join(o["props"]), ",".join(o["rows"]), "quick=" + ",".join(o["quick"]), o["harness"])
            for u in verusrun.UNITS:
                print("verus:" + u["name"], ",".join(u["props"]))
            return 0
        if a.what == "selftest":
            from . import selftest
            return selftest.main(a.path)
        if a.what not in PROPS:
            print("unknown property", a.what)
            return 2
        return check_property(a.what, a.tier, seed)
    except Exception:
        log(traceback.format_exc())
        print("UNDECIDED property=%s reason=internal-error" % a.what)
        return 2


if __name__ == "__main__":
    sys.exit(main())
