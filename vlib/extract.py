"""Mechanical extraction of real functions from /repo for the Verus leg.

Nothing here knows what the functions *mean*: it finds an item by (file, anchor
regex, fn name), takes signature+body by brace matching with a comment/string
aware lexer, applies the stated rewrite rules R1..R5 (each a Rust-defined
desugaring) and splices annotation blocks at anchors given by source-line text.
Anything it cannot do exactly (anchor missing or ambiguous, unbalanced braces)
raises ExtractError, which the runner reports as `undecided`, never as a violation.
"""
import re


class ExtractError(Exception):
    pass


def _lex_spans(src):
    """yield (kind, start, end) for comments / strings / chars so that brace
    matching can skip them"""
    i, n = 0, len(src)
    spans = []
    while i < n:
        c = src[i]
        if src.startswith("//", i):
            j = src.find("\n", i)
            j = n if j < 0 else j
            spans.append(("comment", i, j))
            i = j
        elif src.startswith("/*", i):
            depth, j = 1, i + 2
            while j < n and depth:
                if src.startswith("/*", j):
                    depth += 1
                    j += 2
                elif src.startswith("*/", j):
                    depth -= 1
                    j += 2
                else:
                    j += 1
            spans.append(("comment", i, j))
            i = j
        elif c == '"':
            j = i + 1
            while j < n and src[j] != '"':
                j += 2 if src[j] == "\\" else 1
            spans.append(("string", i, j + 1))
            i = j + 1
        elif c == "r" and re.match(r'r#*"', src[i:]):
            m = re.match(r'r(#*)"', src[i:])
            close = '"' + m.group(1)
            j = src.find(close, i + len(m.group(0)))
            j = n if j < 0 else j + len(close)
            spans.append(("string", i, j))
            i = j
        elif c == "b" and src.startswith("b'", i) or c == "'":
            k = i + (2 if c == "b" else 1)
            m = re.match(r"(\\.[^']*|[^'\\])'", src[k:])
            if m and (c == "b" or not re.match(r"[A-Za-z_][A-Za-z0-9_]*(?!')", src[k:]) or src[k + 1:k + 2] == "'"):
                spans.append(("char", i, k + len(m.group(0))))
                i = k + len(m.group(0))
            else:
                i += 1   # lifetime
        else:
            i += 1
    return spans


def match_brace(src, open_idx):
    assert src[open_idx] == "{"
    skip = _lex_spans(src)
    sk = 0
    depth = 0
    i = open_idx
    n = len(src)
    # index spans for quick skipping
    starts = {s: e for _, s, e in skip}
    while i < n:
        if i in starts:
            i = starts[i]
            continue
        ch = src[i]
        if ch == "{":
            depth += 1
        elif ch == "}":
            depth -= 1
            if depth == 0:
                return i
        i += 1
    raise ExtractError("unbalanced braces")


def find_fn(src, name, after=None, nth=0):
    """-> (sig_start, body_open, body_close).  `after`: regex that must match
    before the function (first match), to pick the right impl block."""
    pos = 0
    if after:
        m = re.search(after, src, re.S)
        if not m:
            raise ExtractError("lost-anchor: %r not found" % after)
        pos = m.end()
    pat = re.compile(r"^[ \t]*(?:pub(?:\([a-z]+\))?\s+)?(?:const\s+)?(?:unsafe\s+)?fn\s+%s\b" % re.escape(name), re.M)
    ms = list(pat.finditer(src, pos))
    if len(ms) <= nth:
        raise ExtractError("lost-anchor: fn %s not found" % name)
    m = ms[nth]
    # body open: first '{' after the signature that is not inside a comment/string
    skip = {s: e for _, s, e in _lex_spans(src)}
    i = m.end()
    depth_paren = 0
    while i < len(src):
        if i in skip:
            i = skip[i]
            continue
        ch = src[i]
        if ch in "(<[":
            depth_paren += ch == "("
        elif ch == ")":
            depth_paren -= 1
        elif ch == "{" and depth_paren == 0:
            break
        elif ch == ";" and depth_paren == 0:
            raise ExtractError("fn %s has no body" % name)
        i += 1
    close = match_brace(src, i)
    return m.start(), i, close


def fn_text(src, name, after=None, nth=0):
    s, o, c = find_fn(src, name, after, nth)
    return src[s:o].strip(), src[o + 1:c]


def dedent(body):
    lines = body.split("\n")
    while lines and not lines[0].strip():
        lines.pop(0)
    while lines and not lines[-1].strip():
        lines.pop()
    ind = min((len(l) - len(l.lstrip()) for l in lines if l.strip()), default=0)
    return [l[ind:] if l.strip() else "" for l in lines]


# ---------------------------------------------------------------- rewrite rules
R1 = re.compile(r"^(\s*)for &(\w+) in (\w+) \{\s*$")
R2 = re.compile(r"^(\s*)\(([\w, ]+)\) = \(([\w, ]+)\);\s*$")
R5A = re.compile(r"^(\s*)let (\w+) = (.+)\?;\s*$")
R5B = re.compile(r"^(\s*)Ok\((.+)\?\)\s*$")
R5_ARM = "{ Ok(__v) => __v, Err(__e) => return Err(From::from(__e)) }"


def apply_rules(lines, report):
    """R1: `for &P in E {` => `for __r_P in __it: E {` + `let P = *__r_P;`
       R2: `(a,b,c,d) = (w,x,y,z);` => `let __t = (w,x,y,z); a = __t.0; ...`
       R3: optionally_unsafe! { invariant!(e); } => assert(e);   (3 lines -> 1)
       debug_assert!/comments are kept."""
    out = []
    i = 0
    while i < len(lines):
        l = lines[i]
        m = R1.match(l)
        if m:
            ind, p, e = m.groups()
            new = ["%sfor __r_%s in __it: %s" % (ind, p, e), "%s    let %s = *__r_%s;" % (ind, p, p)]
            # the loop's opening brace is emitted after the invariant block by splice()
            out.append(("R1", [l], new))
            report.append({"rule": "R1", "original": l.strip(), "rewritten": "for __r_%s in __it: %s { let %s = *__r_%s;" % (p, e, p, p)})
            i += 1
            continue
        m = R2.match(l)
        if m:
            ind, lhs, rhs = m.groups()
            names = [x.strip() for x in lhs.split(",")]
            new = ["%slet __t = (%s); %s" % (ind, rhs, " ".join("%s = __t.%d;" % (nm, k) for k, nm in enumerate(names)))]
            out.append(("R2", [l], new))
            report.append({"rule": "R2", "original": l.strip(), "rewritten": new[0].strip()})
            i += 1
            continue
        if l.strip() == "loop {":
            ind = l[:len(l) - len(l.lstrip())]
            out.append(("R1", [l], [ind + "loop", None]))   # header / invariants / brace, like R1
            i += 1
            continue
        m = R5A.match(l)
        if m:
            ind, x, e = m.groups()
            new = ["%slet %s = match %s %s;" % (ind, x, e, R5_ARM)]
            out.append(("R5", [l], new))
            report.append({"rule": "R5 (`?` desugared: Rust's documented Result desugaring)", "original": l.strip(), "rewritten": new[0].strip()})
            i += 1
            continue
        m = R5B.match(l)
        if m:
            ind, e = m.groups()
            new = ["%sOk(match %s %s)" % (ind, e, R5_ARM)]
            out.append(("R5", [l], new))
            report.append({"rule": "R5 (`?` desugared)", "original": l.strip(), "rewritten": new[0].strip()})
            i += 1
            continue
        if l.strip() == "optionally_unsafe! {" and i + 2 < len(lines) and lines[i + 2].strip() == "}":
            m3 = re.match(r"^\s*invariant!\((.*)\);\s*$", lines[i + 1])
            if m3:
                ind = l[:len(l) - len(l.lstrip())]
                new = ["%sassert(%s);" % (ind, m3.group(1))]
                out.append(("R3", lines[i:i + 3], new))
                report.append({"rule": "R3 (invariant! becomes a proof obligation)", "original": "optionally_unsafe! { invariant!(%s); }" % m3.group(1), "rewritten": new[0].strip()})
                i += 3
                continue
        out.append(("verbatim", [l], [l]))
        i += 1
    return out


def splice(items, annots, report):
    """annots: list of (kind, anchor_text, block_lines); kind in
    before/after/invariant (for an R1 loop header)/end.  Anchor = stripped first
    source line of the statement; must match exactly one original line."""
    def locate(anchor):
        # alternatives `A ||| B`: the first alternative that matches exactly one line
        # (lets one annotation file follow a function through a known repair)
        # an alternative ending in " ..." matches by prefix (the rest of the statement is free to change)
        for alt in [a.strip() for a in anchor.split("|||")]:
            if alt.endswith(" ..."):
                pre = alt[:-4]
                hits = [k for k, (rule, orig, new) in enumerate(items) if orig and orig[0].strip().startswith(pre)]
            else:
                hits = [k for k, (rule, orig, new) in enumerate(items) if orig and orig[0].strip() == alt]
            if len(hits) == 1:
                return hits[0]
        raise ExtractError("lost-anchor: %r matches no single line" % anchor)
    before, after, inv = {}, {}, {}
    endblk = []
    for kind, anchor, block in annots:
        if kind == "end":
            endblk += block
            continue
        k = locate(anchor)
        {"before": before, "after": after, "invariant": inv}[kind].setdefault(k, []).extend(block)
    out = []
    inserted = 0
    for k, (rule, orig, new) in enumerate(items):
        if k in before:
            out += before[k]
            inserted += len(before[k])
        if rule == "R1":
            out.append(new[0])
            if k in inv:
                out += inv[k]
                inserted += len(inv[k])
            out.append(orig[0][:len(orig[0]) - len(orig[0].lstrip())] + "{")
            if new[1] is not None:
                out.append(new[1])
        else:
            if k in inv:
                raise ExtractError("invariant anchor is not an R1 loop header")
            out += new
        if k in after:
            out += after[k]
            inserted += len(after[k])
    out += endblk
    inserted += len(endblk)
    report.append({"spliced_annotation_lines": inserted,
                   "verbatim_source_lines": sum(len(o) for r, o, n in items if r == "verbatim"),
                   "rewritten_source_lines": sum(len(o) for r, o, n in items if r != "verbatim")})
    return out


def parse_annot(path):
    """Annotation file format:
         @before <anchor source line>
         @after <anchor source line>
         @invariant <anchor source line>   (loop header)
         @end
       followed by the block lines (until the next @ line)."""
    annots = []
    cur = None
    for line in open(path).read().split("\n"):
        m = re.match(r"^@(before|after|invariant|end|header)\s*(.*)$", line)
        if m:
            cur = (m.group(1), m.group(2).strip(), [])
            annots.append(cur)
        elif cur is not None:
            cur[2].append(line)
    return annots
