"""Kani leg: catalogue scan, parallel harness runs, verdict classification."""
import os
import re
import shlex
import threading
import time

from .common import OVERLAY, ROWS, CRATE, sh, log, overlay_files

OB_RE = re.compile(r"^\s*//\s*@ob\s+(.*)$")
FN_RE = re.compile(r"^\s*(?:pub(?:\([a-z]+\))?\s+)?fn\s+([A-Za-z0-9_]+)\s*\(")
KV_RE = re.compile(r'([A-Za-z_.0-9]+)=("([^"]*)"|\S+)')


def module_path(rel):
    # fast-tlsh/src/compare/dist_qratios/verif_kani.rs -> compare::dist_qratios::verif_kani
    p = rel[len(CRATE + "/src/"):-3]
    return p.replace("/", "::")


def scan_catalogue():
    """Every `// @ob k=v ...` line annotates the next `fn`.  One source of truth,
    next to the harness."""
    obs = []
    for rel in overlay_files():
        if not rel.endswith(".rs"):
            continue
        with open(os.path.join(OVERLAY, rel)) as fh:
            lines = fh.read().splitlines()
        pending = None
        inline_mod = []     # stack of (name, indent): `mod x {` ... `}` at the same indentation
        for ln, line in enumerate(lines, 1):
            mm = re.match(r"^(\s*)(?:pub(?:\([a-z]+\))?\s+)?mod (\w+) \{\s*$", line)
            if mm:
                inline_mod.append((mm.group(2), mm.group(1)))
                continue
            if inline_mod and line.rstrip() == inline_mod[-1][1] + "}":
                inline_mod.pop()
                continue
            m = OB_RE.match(line)
            if m:
                kv = {}
                for k, v, vq in KV_RE.findall(m.group(1)):
                    kv[k] = vq if v.startswith('"') else v
                pending = (kv, ln)
                continue
            if pending:
                f = FN_RE.match(line)
                if f:
                    kv, oln = pending
                    kv["harness"] = "::".join([module_path(rel)] + [n for n, _ in inline_mod] + [f.group(1)])
                    kv["file"] = rel
                    kv["line"] = oln
                    obs.append(normalise(kv))
                    pending = None
    ids = [o["id"] for o in obs]
    dup = set(i for i in ids if ids.count(i) > 1)
    if dup:
        raise RuntimeError("duplicate obligation ids: %s" % sorted(dup))
    return obs


def normalise(kv):
    o = dict(kv)
    o["props"] = [p for p in kv.get("props", "").split(",") if p]
    o["rows"] = [r for r in kv.get("rows", "tables").split(",") if r]
    for r in o["rows"]:
        if r not in ROWS:
            raise RuntimeError("unknown row %s in %s" % (r, kv.get("id")))
    q = kv.get("quick")
    if q is None:
        o["quick"] = [o["rows"][0]]
    elif q == "-":
        o["quick"] = []
    else:
        o["quick"] = q.split(",")
    o["quick_by_prop"] = {}
    for k, v in kv.items():
        if k.startswith("quick."):
            o["quick_by_prop"][k[6:]] = [] if v == "-" else v.split(",")
    o["kind"] = kv.get("kind", "HC")
    o["replay"] = kv.get("replay", "native")
    o["timeout"] = int(kv.get("timeout", "0")) or None
    o["allow"] = kv.get("allow")
    o["cbmc"] = kv.get("cbmc")
    o["bounded"] = kv.get("bounded")
    return o


def select(obs, prop, tier):
    """-> list of (obligation, row)"""
    sel = []
    for o in obs:
        if prop not in o["props"]:
            continue
        if tier == "thorough":
            rows = o["rows"]
        else:
            rows = o["quick_by_prop"].get(prop, o["quick"])
        for r in rows:
            sel.append((o, r))
    return sel


# ---------------------------------------------------------------- output parsing
# NB: check names contain spaces for generic impls (`<T<1, 12> as Trait>::f.assertion.1`)
CHECK_RE = re.compile(
    r"^Check (\d+): (.+)\n\s+- Status: (\S+)\n\s+- Description: \"(.*)\"\n(?:\s+- Location: (.*)\n)?", re.M)
BLOCK_RE = re.compile(r"^Check (\d+): (.+)$", re.M)


def parse_checks(text):
    """-> [(num, name, status, description, location)]; block-wise, because descriptions may
    span several lines and check names may contain spaces"""
    out = []
    heads = list(BLOCK_RE.finditer(text))
    for k, m in enumerate(heads):
        end = heads[k + 1].start() if k + 1 < len(heads) else len(text)
        block = text[m.end():end]
        cut = block.find("\n\n")
        if cut >= 0:
            block = block[:cut + 1]
        st = re.search(r"^\s+- Status: (\S+)", block, re.M)
        de = re.search(r"^\s+- Description: \"(.*?)\"\s*(?=^\s+- Location:|\Z)", block, re.M | re.S)
        lo = re.search(r"^\s+- Location: (.*)$", block, re.M)
        if not st:
            continue
        out.append((m.group(1), m.group(2).strip(), st.group(1), (de.group(1) if de else "").replace("\n", " "), lo.group(1) if lo else ""))
    return out


SUMMARY_RE = re.compile(r"^ \*\* (\d+) of (\d+) failed", re.M)

# Kani inserts overflow checks into stdarch's *wrapping* SIMD intrinsics
# (paddb/psubb/pmullw ...): spurious for code that uses them for wrapping
# arithmetic.  Filtered only for harnesses that opt in with allow=simd.
SPURIOUS_SIMD = re.compile(r"attempt to compute `?simd_(add|sub|mul)`? which would overflow")

UNDECIDED_PATTERNS = [
    re.compile(r"unwinding assertion"),
    re.compile(r"is not currently supported by Kani"),
    re.compile(r"unsupported construct", re.I),
    re.compile(r"recursion unwinding assertion"),
    # structural anchors of HC+stub contracts ("the code has the call structure this contract is
    # written for"): code of another shape is outside the contract's reach, not a violation
    re.compile(r"\banchor: "),
]


def parse_harness_output(text, allow=None):
    """-> dict(verdict=discharged|failed|undecided, checks=n, failed=[...], ignored=[...], reason, seconds, covers)"""
    res = {"checks": 0, "failed": [], "ignored": [], "undecided_checks": [], "seconds": None,
           "covers": None, "reason": ""}
    m = re.search(r"Verification Time: ([0-9.]+)s", text)
    if m:
        res["seconds"] = float(m.group(1))
    checks = parse_checks(text)
    res["checks"] = len(checks)
    allow_res = []
    if allow:
        for a in allow.split("|"):
            if a == "simd":
                allow_res.append(SPURIOUS_SIMD)
            else:
                allow_res.append(re.compile(a))
    covers_total = covers_sat = 0
    for num, name, status, desc, loc in checks:
        is_cover = ".cover." in name
        if is_cover:
            covers_total += 1
            if status == "SATISFIED":
                covers_sat += 1
            else:
                res["undecided_checks"].append("cover %s: %s %s" % (status, desc, loc))
            continue
        if status == "SUCCESS":
            continue
        entry = {"check": name, "status": status, "description": desc.strip('"'), "location": loc}
        if status in ("FAILURE",):
            if any(p.search(desc) for p in UNDECIDED_PATTERNS):
                res["undecided_checks"].append("%s: %s" % (name, desc))
            elif any(a.search(desc + " @ " + (loc or "")) for a in allow_res):
                res["ignored"].append(entry)
            else:
                res["failed"].append(entry)
        elif status in ("UNREACHABLE",):
            continue
        else:  # UNDETERMINED etc.
            res["undecided_checks"].append("%s: %s %s" % (name, status, desc))
    res["covers"] = [covers_sat, covers_total]
    # cross-check the parse against Kani's own summary: every check must have been seen and
    # the number of FAILURE blocks must match; a mismatch is a tool/parse problem => undecided
    sm = SUMMARY_RE.search(text)
    n_fail_parsed = len(res["failed"]) + len(res["ignored"]) + sum(1 for x in res["undecided_checks"] if not x.startswith("cover "))
    if sm:
        k_failed, k_total = int(sm.group(1)), int(sm.group(2))
        n_noncover = len(checks) - covers_total
        if k_total != n_noncover or k_failed > n_fail_parsed:
            res["verdict"] = "undecided"
            res["reason"] = "result parse mismatch: Kani summary says %d of %d failed, parsed %d checks / %d failures" % (k_failed, k_total, n_noncover, n_fail_parsed)
            return res
    if "VERIFICATION:- FAILED" in text and not res["failed"] and not res["ignored"] and not res["undecided_checks"] and "CBMC timed out" not in text:
        res["verdict"] = "undecided"
        res["reason"] = "Kani reports FAILED but no failed check was parsed"
        return res
    done = "VERIFICATION:- " in text
    if "CBMC timed out" in text or "CBMC failed" in text and not checks:
        res["verdict"] = "undecided"
        res["reason"] = "CBMC timed out / failed without a result (tool limit)"
        return res
    if not done:
        res["verdict"] = "undecided"
        tail = text.strip().splitlines()[-3:] if text.strip() else []
        res["reason"] = "no verification result (timeout, out of memory, or tool failure): " + " | ".join(tail)[-300:]
        return res
    if res["failed"]:
        # A failed unwinding assertion makes later paths unreachable and may
        # mask or produce other failures: still report genuine failures, since
        # CBMC failures are real traces; but mark reason.
        res["verdict"] = "failed"
        res["reason"] = "; ".join("%s (%s)" % (f["description"], f["location"]) for f in res["failed"][:4])
    elif res["undecided_checks"]:
        res["verdict"] = "undecided"
        res["reason"] = "; ".join(res["undecided_checks"][:4])
    elif res["checks"] == 0:
        res["verdict"] = "undecided"
        res["reason"] = "no checks generated (vacuous harness)"
    else:
        res["verdict"] = "discharged"
    return res


# ---------------------------------------------------------------- running
def kani_cmd(row, harnesses, jobs, timeout_s, extra_cbmc=None, outdir=True, target_dir=None):
    cmd = ["cargo", "kani", "-p", CRATE, "--no-default-features", "--features", ROWS[row],
           "-Z", "stubbing", "-Z", "function-contracts", "-Z", "unstable-options",
           "--exact", "--harness-timeout", "%ds" % timeout_s]
    if target_dir:
        cmd += ["--target-dir", target_dir]
    for h in harnesses:
        cmd += ["--harness", h]
    if outdir:
        cmd += ["-j", str(jobs), "--output-format", "terse", "--output-into-files"]
    if extra_cbmc:
        cmd += ["--cbmc-args"] + shlex.split(extra_cbmc)
    return cmd


def run_row(scratch, row, items, jobs, timeout_s, results, lock):
    """items: list of obligations for this row.  Groups by cbmc args (one cargo
    kani process per group)."""
    groups = {}
    for o in items:
        groups.setdefault(o.get("cbmc") or "", []).append(o)
    tdir = os.path.join(scratch.root, "target-" + row)
    for cb, obs in groups.items():
        wd = os.path.join(scratch.root, "run-%s-%d" % (row, abs(hash(cb)) % 10000))
        os.makedirs(wd, exist_ok=True)
        # cargo kani writes result_output_dir relative to cwd; run from a per-group
        # dir with --manifest-path so rows do not collide.
        hs = [o["harness"] for o in obs]
        per = max(o["timeout"] or timeout_s for o in obs)
        cmd = kani_cmd(row, hs, jobs, per, cb or None, target_dir=tdir)
        cmd[2:2] = ["--manifest-path", os.path.join(scratch.repo, "Cargo.toml")]
        t0 = time.time()
        rc, out, secs = sh(cmd, cwd=wd, timeout=per * max(1, (len(hs) + jobs - 1) // jobs) + 600)
        # Graceful degradation: a contract file that no longer compiles against this tree (it
        # names a private item that was renamed or removed) must not take the whole row down:
        # blank such files (their obligations become undecided) and run the rest once more.
        disabled = {}
        for attempt in range(2):
            if not (("error: could not compile" in out) or ("error[E" in out and "Finished" not in out)):
                break
            bad = sorted(set(re.findall(r"--> (%s/src/\S*verif_kani\.rs):\d+" % CRATE, out)))
            bad = [b for b in bad if b not in disabled]
            if not bad:
                break
            for b in bad:
                disabled[b] = first_error(out)
                with open(os.path.join(scratch.repo, b), "w") as fh:
                    fh.write("// disabled by the runner: this contract file did not compile against the current tree\n")
            keep = [o for o in obs if o["file"] not in disabled]
            if not keep:
                break
            hs = [o["harness"] for o in keep]
            cmd = kani_cmd(row, hs, jobs, per, cb or None, target_dir=tdir)
            cmd[2:2] = ["--manifest-path", os.path.join(scratch.repo, "Cargo.toml")]
            rc, out, secs2 = sh(cmd, cwd=wd, timeout=per * max(1, (len(hs) + jobs - 1) // jobs) + 600)
            secs += secs2
        compile_failed = ("error: could not compile" in out) or ("error[E" in out and "Finished" not in out)
        missing = re.search(r"Failed to match the following harness", out)
        for o in obs:
            key = (o["id"], row)
            f = os.path.join(tdir, "result_output_dir", o["harness"])
            if o["file"] in disabled:
                r = {"verdict": "undecided", "checks": 0, "failed": [], "ignored": [], "seconds": None,
                     "covers": None, "undecided_checks": [],
                     "reason": "lost anchor: the contract file %s no longer compiles against this tree (a private item it names was renamed or removed?): %s" % (o["file"], disabled[o["file"]])}
            elif os.path.exists(f):
                with open(f) as fh:
                    txt = fh.read()
                r = parse_harness_output(txt, o.get("allow"))
                r["raw_path"] = f
            else:
                r = {"verdict": "undecided", "checks": 0, "failed": [], "ignored": [], "seconds": None,
                     "covers": None, "undecided_checks": []}
                if compile_failed:
                    r["reason"] = "overlay/crate did not compile under kani (row %s): %s" % (
                        row, first_error(out))
                elif missing:
                    r["reason"] = "harness not found (lost anchor or cfg): " + o["harness"]
                else:
                    r["reason"] = "no per-harness output (timeout/oom/tool failure); rc=%s %s" % (
                        rc, out.strip().splitlines()[-1:] if out.strip() else "")
            r["row"] = row
            r["cmd"] = " ".join(kani_cmd(row, [o["harness"]], 1, per, cb or None, outdir=False))
            with lock:
                results[key] = r


def first_error(out):
    m = re.search(r"^(error(\[E\d+\])?: .*(?:\n.*){0,6})", out, re.M)
    return (m.group(1) if m else out[-600:]).replace("\n", " | ")[:900]


CACHE_DIR = os.path.join(os.path.dirname(os.path.dirname(os.path.abspath(__file__))), ".cache", "kani-results")


_OVL_CACHE = {}


def _overlay_hash(own_file=None):
    """hash of what a harness's verdict depends on besides /repo: its own contract file, the
    shared spec / model files, the support crate and the runner"""
    import hashlib
    if own_file in _OVL_CACHE:
        return _OVL_CACHE[own_file]
    h = hashlib.sha256()
    base = os.path.dirname(os.path.dirname(os.path.abspath(__file__)))
    files = []
    for dp, dn, fn in sorted(os.walk(os.path.join(base, "kani", "support"))):
        dn.sort()
        for f in sorted(fn):
            if f != "Cargo.lock" and "/target" not in dp:
                files.append(os.path.join(dp, f))
    for rel in overlay_files():
        if os.path.basename(rel) in ("verif_spec.rs", "verif_models.rs") or rel == own_file:
            files.append(os.path.join(OVERLAY, rel))
    for f in ("kanirun.py", "common.py"):
        files.append(os.path.join(base, "vlib", f))
    for p in files:
        h.update(os.path.relpath(p, base).encode())
        h.update(open(p, "rb").read())
    _OVL_CACHE[own_file] = h.hexdigest()
    return _OVL_CACHE[own_file]


def _cache_key(tree, ovl, o, row, timeout):
    import hashlib
    return hashlib.sha256(("|".join([tree, ovl, o["id"], o["harness"], row, ROWS[row], str(o.get("cbmc")), str(o.get("allow")), "kani-0.68.0"])).encode()).hexdigest()


def run_selection(scratch, sel, tier, total_jobs=16):
    """sel: list of (obligation,row).  Rows run concurrently, each with its own
    target dir.  -> {(id,row): result}

    Results are memoised BY CONTENT: key = sha256(scratch copy of /repo's sources +
    overlay + support crate + obligation + feature row + tool version).  A different
    working tree is a different key, so this is observationally "rebuild from the
    current tree"; only decided verdicts (discharged / failed) are stored; evidence
    marks cached obligations; VERIF_NO_CACHE=1 disables it."""
    import json
    from .common import tree_hash
    use_cache = not os.environ.get("VERIF_NO_CACHE")
    results, lock = {}, threading.Lock()
    keys = {}
    if use_cache:
        # hash of the pristine copy (taken before the overlay was applied: the overlay writes a
        # scratch-specific path into Cargo.toml); the overlay itself is hashed separately
        tree = getattr(scratch, "pristine_hash", None) or tree_hash(scratch.repo)
        os.makedirs(CACHE_DIR, exist_ok=True)
        rest = []
        for o, r in sel:
            k = _cache_key(tree, _overlay_hash(o["file"]), o, r, 0)
            keys[(o["id"], r)] = k
            f = os.path.join(CACHE_DIR, k + ".json")
            if os.path.exists(f):
                try:
                    res = json.load(open(f))
                    res["cached"] = True
                    results[(o["id"], r)] = res
                    continue
                except Exception:
                    pass
            rest.append((o, r))
        if len(rest) < len(sel):
            log("  kani: %d of %d obligations answered from the content-keyed cache" % (len(sel) - len(rest), len(sel)))
        sel = rest
    by_row = {}
    for o, r in sel:
        by_row.setdefault(r, []).append(o)
    default_timeout = 900 if tier == "quick" else 2700
    nrows = max(1, len(by_row))
    # share the cores between the rows proportionally to their harness count
    total_h = sum(len(v) for v in by_row.values()) or 1
    threads = []
    for row, items in by_row.items():
        jobs = max(1, min(len(items), round(total_jobs * len(items) / total_h)))
        t = threading.Thread(target=run_row, args=(scratch, row, items, jobs, default_timeout, results, lock))
        t.start()
        threads.append(t)
    for t in threads:
        t.join()
    # Second chance for tool failures (timeout / out of memory / driver crash under load): run
    # those harnesses again, a few at a time and with twice the time.  A verdict is only ever
    # replaced by the result of a complete second run of the same obligation.
    if not os.environ.get("VERIF_NO_RETRY"):
        retry = {}
        for o, r in sel:
            res = results.get((o["id"], r))
            if res and res.get("verdict") == "undecided" and re.search(
                    r"no per-harness output|CBMC timed out|no failed check was parsed|no verification result", res.get("reason", "")):
                retry.setdefault(r, []).append(o)
        for row, items in retry.items():
            log("  kani: retrying %d harness(es) of row %s with low parallelism" % (len(items), row))
            items2 = []
            for o in items:
                o2 = dict(o)
                o2["timeout"] = 2 * (o.get("timeout") or default_timeout)
                items2.append(o2)
            second = {}
            run_row(scratch, row, items2, 2, 2 * default_timeout, second, lock)
            for k, v in second.items():
                if v.get("verdict") in ("discharged", "failed"):
                    v["retried"] = True
                    results[k] = v
    if use_cache:
        for (oid, r), res in results.items():
            if res.get("cached") or res.get("verdict") not in ("discharged", "failed"):
                continue
            k = keys.get((oid, r))
            if k:
                d = {x: y for x, y in res.items() if x != "raw_path"}
                try:
                    with open(os.path.join(CACHE_DIR, k + ".json"), "w") as fh:
                        json.dump(d, fh)
                except Exception:
                    pass
    return results
