"""Verus leg: one generated file per unit, `verus f.rs --output-json --time`.
Every function in Verus's function-breakdown is one obligation.  Functions
named canary_* MUST FAIL (they state `ensures false` under a contract's
precondition: if one verifies the precondition is contradictory => vacuous)."""
import json
import os
import re

from . import extract
from .common import VERIF, sh, log

VDIR = os.path.join(VERIF, "verus")
UNITS = []


def unit(name, props, quick=True, rlimit=60, search=None):
    def deco(fn):
        UNITS.append({"name": name, "props": props, "quick": quick, "build": fn, "rlimit": rlimit, "search": search})
        return fn
    return deco


def select(prop, tier):
    return [u for u in UNITS if prop in u["props"] and (tier == "thorough" or u["quick"])]


def run_unit(sc, u, tier):
    """-> list of obligation records"""
    name = u["name"]
    recs = []
    base = {"backend": "verus/z3", "kind": "V", "config": "source", "harness": "", "replay_mode": "none",
            "solver": "z3", "bounded": None, "covers": None}
    try:
        built = u["build"](sc)
    except extract.ExtractError as ex:
        return [dict(base, name="verus:%s" % name, id="verus:" + name, function="", domain="", verdict="undecided",
                     reason="extraction: %s" % ex, seconds=None, checks=0, cmd="")]
    text, meta = built["text"], built
    # content-keyed memo: the generated file IS the input of the verifier
    import hashlib
    ckey = hashlib.sha256((text + "|rlimit=%d|verus-0.2026.09.13|" % u["rlimit"] + open(__file__).read()).encode()).hexdigest()
    cdir = os.path.join(VERIF, ".cache", "verus-results")
    cfile = os.path.join(cdir, ckey + ".json")
    if not os.environ.get("VERIF_NO_CACHE") and os.path.exists(cfile):
        try:
            recs = json.load(open(cfile))
            for r in recs:
                r["cached"] = True
            return recs
        except Exception:
            pass
    wd = os.path.join(sc.root, "verus")
    os.makedirs(wd, exist_ok=True)
    path = os.path.join(wd, name + ".rs")
    with open(path, "w") as fh:
        fh.write(text)
    cmd = ["verus", path, "--output-json", "--time", "--rlimit", str(u["rlimit"])]
    rc, out, secs = sh(cmd + ["--multiple-errors", "20"], cwd=wd, timeout=1500)
    cmd_s = "verus <generated %s.rs from /repo> --output-json --time --rlimit %d" % (name, u["rlimit"])
    # stdout is JSON followed/preceded by diagnostics on stderr (merged): split
    j = None
    m = re.search(r"^\{\n.*?^\}\n", out, re.S | re.M)
    if m:
        try:
            j = json.loads(m.group(0))
        except Exception:
            j = None
    diag = out if not m else out[:m.start()] + out[m.end():]
    if os.environ.get("VERIF_KEEP_SCRATCH") or True:
        keep = os.path.join(VERIF, ".cache", "verus-last")
        os.makedirs(keep, exist_ok=True)
        with open(os.path.join(keep, name + ".rs"), "w") as fh:
            fh.write(text)
        with open(os.path.join(keep, name + ".log"), "w") as fh:
            fh.write(out)
    if j is None or "verification-results" not in j:
        return [dict(base, name="verus:%s" % name, id="verus:" + name, function=meta.get("function", ""), domain="",
                     verdict="undecided", reason="verus produced no result (parse/mode error or tool failure): " + first_err(diag),
                     seconds=secs, checks=0, cmd=cmd_s)]
    vr = j["verification-results"]
    if vr.get("encountered-vir-error"):
        return [dict(base, name="verus:%s" % name, id="verus:" + name, function=meta.get("function", ""), domain="",
                     verdict="undecided", reason="verus rejected the generated file (unsupported construct / type error after a source change): " + first_err(diag),
                     seconds=secs, checks=0, cmd=cmd_s)]
    fb = []
    for mod in j.get("times-ms", {}).get("smt", {}).get("smt-run-module-times", []):
        fb += mod.get("function-breakdown", [])
    seen = {}
    for f in fb:
        fn = f["function"].split("::", 1)[-1]
        ok = f["success"]
        if fn in seen:
            seen[fn]["success"] = seen[fn]["success"] and ok
            seen[fn]["time"] += f.get("time-micros", 0)
        else:
            seen[fn] = {"success": ok, "time": f.get("time-micros", 0), "mode": f.get("mode:", "")}
    rlimit_hit = bool(re.search(r"Resource limit \(rlimit\) exceeded|rlimit exceeded|timed out", diag))
    errors = split_errors(diag)
    expected = meta.get("expect", [])
    for fn in expected:
        if fn not in seen:
            recs.append(dict(base, name="verus:%s.%s" % (name, fn), id="verus:%s.%s" % (name, fn), function=meta.get("function", ""),
                             domain="", verdict="undecided", reason="expected obligation missing from Verus output (silently dropped?)",
                             seconds=None, checks=0, cmd=cmd_s))
    for fn, info in seen.items():
        is_canary = fn.split("::")[-1].startswith("canary_")
        my_errs = [e for e in errors if fn.split("::")[-1] in meta.get("fn_lines_lookup", lambda e: [])(e)] if False else []
        rec = dict(base, name="verus:%s.%s" % (name, fn), id="verus:%s.%s" % (name, fn),
                   function=meta.get("functions", {}).get(fn, meta.get("function", "")),
                   domain=meta.get("domain", "all inputs satisfying the precondition (unbounded)"),
                   seconds=round(info["time"] / 1e6, 3), checks=1, cmd=cmd_s,
                   assumptions=meta.get("assumptions", []), fidelity_report=meta.get("fidelity"))
        if is_canary:
            rec["kind"] = "V-canary"
            if info["success"]:
                rec["verdict"] = "undecided"
                rec["reason"] = "vacuity canary verified: the precondition it guards is contradictory"
            else:
                rec["verdict"] = "discharged"
                rec["reason"] = "canary fails as required (precondition is satisfiable)"
        elif info["success"]:
            rec["verdict"] = "discharged"
        else:
            errs = errors_for(text, errors, fn.split("::")[-1])
            sem = [e for e in errs if not re.search(r"rlimit|timed out", e)]
            if rlimit_hit and not sem:
                rec["verdict"] = "undecided"
                rec["reason"] = "rlimit/timeout: " + " || ".join(errs)[:600]
            else:
                rec["verdict"] = "failed"
                rec["reason"] = " || ".join(errs)[:1500] or "verus reports failure"
                rec["verifier_output"] = "\n".join(errs)[:6000]
                rec["failed_checks"] = [{"description": e.split("\n")[0], "location": loc_of(e)} for e in errs]
                if u.get("search"):
                    rec["search_fn"] = u["search"]
        recs.append(rec)
    if not seen:
        recs.append(dict(base, name="verus:%s" % name, id="verus:" + name, function="", domain="", verdict="undecided",
                         reason="no obligations generated", seconds=secs, checks=0, cmd=cmd_s))
    if recs and all(r["verdict"] in ("discharged", "failed") for r in recs) and not os.environ.get("VERIF_NO_CACHE"):
        try:
            os.makedirs(cdir, exist_ok=True)
            with open(cfile, "w") as fh:
                json.dump(recs, fh)
        except Exception:
            pass
    return recs


def first_err(diag):
    m = re.search(r"^(error.*(?:\n.*){0,8})", diag, re.M)
    return (m.group(1) if m else diag[-600:]).replace("\n", " | ")[:900]


def split_errors(diag):
    parts = re.split(r"\n(?=error)", "\n" + diag)
    return [p.strip() for p in parts if p.strip().startswith("error") and "aborting due to" not in p]


def loc_of(e):
    m = re.search(r"--> (\S+)", e)
    return m.group(1) if m else ""


def fn_ranges(text):
    """line ranges [start of fn, start of next fn) in the generated file"""
    starts = []
    for m in re.finditer(r"^[ \t]*(?:pub(?:\([a-z]+\))?\s+)?(?:open\s+|closed\s+|uninterp\s+)?(?:proof\s+|spec\s+|exec\s+)?fn\s+(\w+)", text, re.M):
        starts.append((m.group(1), text.count("\n", 0, m.start()) + 1))
    total = text.count("\n") + 1
    rng = []
    for k, (name, l0) in enumerate(starts):
        l1 = starts[k + 1][1] - 1 if k + 1 < len(starts) else total
        rng.append((name, l0, l1))
    return rng


def errors_for(text, errors, fn):
    rng = [(n, a, b) for n, a, b in fn_ranges(text) if n == fn]
    out = []
    for e in errors:
        lines = [int(x) for x in re.findall(r"--> \S+?:(\d+):\d+", e)]
        if not rng:
            out.append(e)
        elif any(a <= ln <= b for ln in lines for _, a, b in rng):
            out.append(e)
    return out


def read(rel):
    with open(os.path.join(VDIR, rel)) as fh:
        return fh.read()


from . import verus_units  # noqa: E402,F401  (registers the units)
