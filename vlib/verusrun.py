"""Verus leg (filled in below)."""
UNITS = []
def select(prop, tier):
    return [u for u in UNITS if prop in u["props"]]
def run_unit(sc, u, tier):
    return []
