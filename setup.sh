#!/bin/sh
# Offline set-up: verifies the tool versions the checks rely on.  Builds nothing into /repo.
set -e
cd "$(dirname "$0")"
export CARGO_NET_OFFLINE=true
verus --version 2>&1 | cat | grep -q "0.2026.09.13" || { echo "verus 0.2026.09.13 not found"; exit 1; }
cargo kani --version 2>&1 | cat | grep -q "0.68.0" || { echo "kani 0.68.0 not found"; exit 1; }
cbmc --version 2>&1 | cat | grep -q "^6.11" || { echo "cbmc 6.11 not found"; exit 1; }
python3 -B -c "import vlib.main, vlib.kanirun; n=len(vlib.kanirun.scan_catalogue()); print('catalogue: %d Kani obligations' % n); assert n > 0"
mkdir -p evidence replay
# native validation of the ASSUMED intrinsic contracts (models in kani/support) against the real
# instructions of this CPU (exhaustive per lane / control byte + 2 x 2,000,000 seeded random pairs)
( cd kani/validate && cargo run --release --offline --quiet ) || { echo "intrinsic model validation failed"; exit 1; }
echo "setup ok"
